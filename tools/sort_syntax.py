"""Delegation check for the four key-function sort wrappers (C16, C17); the three Ord wrappers are verified by Verus.

Each wrapper's whole body must be one call to the base variant of ITS axis and ITS stability, with
the index forwarded unchanged and the comparison built from the key function / Ord::cmp in the
natural argument order.  This is a syntactic contract (the wrappers take closures over FnMut key
functions, which Verus cannot call generically); a deviation is confirmed or refuted by the
bounded tools.
"""
import os
import re
import sys

sys.path.insert(0, os.path.dirname(os.path.abspath(__file__)))
from rustscan import SourceFile  # noqa: E402

EXPECT = {
    "sort_by_row_key": "self.sort_by_row(row,|a,b|f(a).cmp(&f(b)));",
    "sort_unstable_by_row_key": "self.sort_unstable_by_row(row,|a,b|f(a).cmp(&f(b)));",
    "sort_by_col_key": "self.sort_by_col(col,|a,b|f(a).cmp(&f(b)));",
    "sort_unstable_by_col_key": "self.sort_unstable_by_col(col,|a,b|f(a).cmp(&f(b)));",
}


def check(repo_src):
    sf = SourceFile("sort.rs", open(os.path.join(repo_src, "sort.rs")).read())
    problems = []
    traits = [it for it in sf.items if it.kind == "trait" and it.name == "SortOps"]
    if len(traits) != 1:
        return ["trait SortOps not found"]
    fns = {c.name: c for c in traits[0].children if c.kind == "fn"}
    for name, want in EXPECT.items():
        if name not in fns:
            problems.append("wrapper %s not found" % name)
            continue
        it = fns[name]
        body = "".join(t.text for t in sf.ct[it.body_open + 1:it.body_close])
        if body != want:
            problems.append("%s no longer delegates as `%s` (body is `%s`)" % (name, want, body[:120]))
    return problems


if __name__ == "__main__":
    print(check(os.path.join(os.environ.get("VERIF_REPO", "/repo"), "src")))
