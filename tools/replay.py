#!/usr/bin/env python3
"""Print a replay file (failed obligation + verifier output) and re-run its concrete input if it has one."""
import json, sys
d = json.load(open(sys.argv[1]))
print("property:", d["property"]); print("obligation:", d["obligation"]); print("repo location:", d.get("repo_location"))
print(d.get("verifier_output", ""))
ci = d.get("concrete_input")
print("concrete input:", json.dumps(ci))
