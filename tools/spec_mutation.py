#!/usr/bin/env python3
"""Contract-strength self-test: mutate the EXEC lines of each contracted function in the generated
Verus file (one small change per mutant: comparison boundary, +/-, 0/1, swapped field) and check that
Verus rejects the mutant.  A mutant that still verifies is either equivalent or shows a clause the
contract does not pin down; survivors are listed for inspection in .gen/spec_mutation.json.
usage: spec_mutation.py [-j N] [--per-fn K] [name-substring ...]"""
import json, os, random, re, subprocess, sys, shutil
from multiprocessing.pool import ThreadPool
V = os.path.dirname(os.path.dirname(os.path.abspath(__file__)))
sys.path.insert(0, os.path.join(V, "tools"))
import vx, check as chk  # noqa

args = sys.argv[1:]
jobs, per_fn = 6, 6
while args and args[0].startswith("-"):
    if args[0] == "-j": jobs = int(args[1]); args = args[2:]
    elif args[0] == "--per-fn": per_fn = int(args[1]); args = args[2:]
    else: break
work = os.path.join(V, ".gen", "specmut")
shutil.rmtree(work, ignore_errors=True); os.makedirs(work)
base = os.path.join(work, "base.rs")
g, meta = vx.generate(os.path.join(V, "contracts", "toodee.vt"), "/repo/src", base)
lines = open(base).read().split("\n")
linemap = meta["linemap"]

MUTS = [(r"<=", "<"), (r"(?<![<>=!-])<(?![<=])", "<="), (r">=", ">"), (r"(?<![<>=-])>(?![>=])", ">="), (r"==", "!="), (r"!=", "=="),
        (r"\+ 1\b", "+ 2"), (r"- 1\b", "- 0"), (r"(?<=\w) \+ (?=\w)", " - "), (r"(?<=\w) - (?=\w)", " + "),
        (r"\b0\b", "1"), (r"\bnum_cols\b", "num_rows"), (r"\bnum_rows\b", "num_cols"), (r"\.0\b", ".1"), (r"\.1\b", ".0"),
        (r"\bnext_back\(", "next("), (r"\bnext\(", "next_back("), (r"\bskip_cols\b", "cols"), (r"\bstride\b", "num_cols"),
        (r"\bnth_back\(", "nth("), (r"&&", "||")]
rnd = random.Random(7)
jobs_list = []
for r in meta["fns"]:
    if r.get("assumed") or r.get("sig_only") or r.get("discharged_by_twin"):
        continue
    name = chk.fn_verus_name(r)
    if args and not any(a in name for a in args):
        continue
    cands = []
    for ln in range(r["gen_line"], r.get("gen_end", r["gen_line"])):
        if ln - 1 >= len(linemap) or not linemap[ln - 1]:
            continue
        text = lines[ln - 1]
        st = text.strip()
        if not st or st.startswith("//") or "proof" in st or "assert" in st or "ghost" in st or "requires" in st or "ensures" in st or "invariant" in st or "decreases" in st or st.startswith("fn ") or st.startswith("pub fn"):
            continue
        if os.environ.get("SPECMUT_DELETE") and st.endswith(";") and not st.startswith("let ") and not st.startswith("return") and "rt_assert" not in st and st.count("(") == st.count(")"):
            cands.append((ln, text[:len(text) - len(text.lstrip())] + "/* deleted */", "delete statement"))
            continue
        if os.environ.get("SPECMUT_DELETE"):
            continue
        for pat, rep in MUTS:
            for m in re.finditer(pat, text):
                new = text[:m.start()] + rep + text[m.end():]
                cands.append((ln, new, "%s -> %s" % (m.group(0), rep)))
    rnd.shuffle(cands)
    for c in cands[:per_fn]:
        jobs_list.append((r, name, c))
print("mutants:", len(jobs_list), flush=True)


def run(job):
    r, name, (ln, new, what) = job
    i = jobs_list.index(job)
    f = os.path.join(work, "m%d.rs" % i)
    ls = list(lines)
    ls[ln - 1] = new
    open(f, "w").write("\n".join(ls))
    short = name.split("::", 1)[1] if "::" in name else name
    p = subprocess.run(["verus", f, "--num-threads", "2", "--verify-root", "--verify-function", short.split("::", 0)[0] if False else short, "--triggers-mode", "silent", "--rlimit", "60"],
                       cwd=work, stdout=subprocess.PIPE, stderr=subprocess.STDOUT, universal_newlines=True)
    out = p.stdout
    os.unlink(f)
    m = re.search(r"verification results:: (\d+) verified, (\d+) errors", out)
    if not m:
        res = "compile-error"
    elif int(m.group(2)) > 0:
        res = "killed"
    elif int(m.group(1)) == 0:
        res = "not-selected"
    else:
        res = "SURVIVED"
    return {"fn": "%s|%s|%s" % (r["file"], r["container"], r["name"]), "verus_name": name, "gen_line": ln, "repo": linemap[ln - 1], "mutation": what,
            "old": lines[ln - 1].strip(), "new": new.strip(), "result": res}


res = ThreadPool(jobs).map(run, jobs_list)
json.dump(res, open(os.path.join(V, ".gen", "spec_mutation.json"), "w"), indent=1)
from collections import Counter
print(Counter(r["result"] for r in res))
for r in res:
    if r["result"] == "SURVIVED":
        print("SURVIVED", r["fn"][:70], "|", r["mutation"], "|", r["old"][:90])
