#!/usr/bin/env python3
"""False-alarm self-test: run the checks against BEHAVIOUR-PRESERVING refactorings of /repo
(benign/<file>-<n>/patch.diff, written by sub-agents that never saw /verif).  A check may pass (exit 0)
or say UNDECIDED (exit 2: the edit moved text a proof hint was anchored on); it must never print
VIOLATION.  Results go to benign/<name>/meta.json and benign/MATRIX.md.
usage: benign_matrix.py [-j N] [names...]"""
import json, os, re, subprocess, sys
from multiprocessing.pool import ThreadPool
V = os.path.dirname(os.path.dirname(os.path.abspath(__file__)))
PROPS = {"iter": ["C08", "C09", "C13"], "view": ["C03", "C04", "C02"], "toodee": ["C01", "C06", "C07"], "ops": ["C13", "C10"],
         "copy": ["C14"], "translate": ["C15"], "sort": ["C16", "C17"], "serde": ["C18", "C19"], "flattenexact": ["C10"]}
args = sys.argv[1:]
jobs = 3
if args and args[0] == "-j":
    jobs = int(args[1]); args = args[2:]


def run(d):
    f = d.rsplit("-", 1)[0]
    W = "/tmp/mw/B_%s" % f
    if f.endswith("b"):          # second round: benign/<file>b-<n>, worktree /tmp/mw/B2_<file>
        f = f[:-1]
        W = "/tmp/mw/B2_%s" % f
    sd = os.path.join(V, "benign", d)
    am = json.load(open(os.path.join(sd, "agent_meta.json")))
    res = {}
    subprocess.run(["git", "-C", W, "checkout", "-q", "--", "src"])
    if subprocess.run(["git", "-C", W, "apply", os.path.join(sd, "patch.diff")]).returncode != 0:
        res["apply"] = "failed"
    else:
        suite = subprocess.run("cd %s && cargo test --offline --lib 2>&1 | grep -E '^test result' | head -1" % W, shell=True, stdout=subprocess.PIPE, universal_newlines=True).stdout.strip()
        res["suite"] = suite
        for p in PROPS[f]:
            cmd = ["python3", os.path.join(V, "tools", "check.py"), "--property", p, "--tier", "quick"] + ([] if f == "toodee" else ["--no-kani"])
            out = subprocess.run(cmd, env=dict(os.environ, VERIF_REPO=W), cwd=V, stdout=subprocess.PIPE, stderr=subprocess.STDOUT, universal_newlines=True).stdout
            if "VIOLATION" in out:
                res[p] = "FALSE ALARM: " + " | ".join(l for l in out.split("\n") if l.startswith("VIOLATION"))[:300]
            elif "UNDECIDED" in out:
                res[p] = "undecided: " + [l for l in out.split("\n") if l.startswith("UNDECIDED")][0][:200]
            else:
                res[p] = "pass"
    subprocess.run(["git", "-C", W, "checkout", "-q", "--", "src"])
    subprocess.run(["rm", "-rf", os.path.join(W, "target")])
    json.dump({"file": am.get("file"), "summary": am.get("summary"), "kind": am.get("kind"), "functions_touched": am.get("functions_touched"),
               "why_equivalent": am.get("why_equivalent"), "what_was_run": "git apply in a scratch worktree of /repo HEAD; existing suite; `VERIF_REPO=<worktree> check.py --property <p> --tier quick` for the properties of that file",
               "check_results": res}, open(os.path.join(sd, "meta.json"), "w"), indent=1)
    print(d, res, flush=True)


groups = {}
for d in sorted(os.listdir(os.path.join(V, "benign"))):
    if not re.match(r"\w+-\d$", d) or (args and d not in args and d.rsplit("-", 1)[0] not in args):
        continue
    groups.setdefault(d.rsplit("-", 1)[0], []).append(d)
ThreadPool(jobs).map(lambda ds: [run(d) for d in ds], list(groups.values()))
with open(os.path.join(V, "benign", "MATRIX.md"), "w") as f:
    f.write("# Behaviour-preserving refactorings vs checks (must never be VIOLATION)\n\n| change | what | result |\n|---|---|---|\n")
    for d in sorted(os.listdir(os.path.join(V, "benign"))):
        mp = os.path.join(V, "benign", d, "meta.json")
        if os.path.exists(mp):
            me = json.load(open(mp))
            f.write("| %s | %s | %s |\n" % (d, (me.get("summary") or "")[:110].replace("|", "/"), "; ".join("%s: %s" % (k, v[:60]) for k, v in me["check_results"].items())))
