#!/usr/bin/env python3
"""Minimal Rust lexer and item scanner used by the extractor.

It understands exactly as much Rust as is needed to find items (fn, impl,
trait, struct, mod) and their brace-matched bodies without being fooled by
comments, strings, char literals or lifetimes.  It never rewrites anything
itself; rewriting is done by vx.py on the token stream it returns.
"""
import re

IDENT_START = set("abcdefghijklmnopqrstuvwxyzABCDEFGHIJKLMNOPQRSTUVWXYZ_")
IDENT_CONT = IDENT_START | set("0123456789")


class Tok:
    __slots__ = ("kind", "text", "start", "end", "line")

    def __init__(self, kind, text, start, end, line):
        self.kind = kind
        self.text = text
        self.start = start
        self.end = end
        self.line = line

    def __repr__(self):
        return "Tok(%s,%r,l%d)" % (self.kind, self.text, self.line)


def lex(src):
    """Return the full token list (whitespace and comments included)."""
    toks = []
    i = 0
    n = len(src)
    line = 1
    while i < n:
        c = src[i]
        start = i
        l0 = line
        if c in " \t\r\n":
            while i < n and src[i] in " \t\r\n":
                if src[i] == "\n":
                    line += 1
                i += 1
            toks.append(Tok("ws", src[start:i], start, i, l0))
        elif src.startswith("//", i):
            while i < n and src[i] != "\n":
                i += 1
            text = src[start:i]
            kind = "doc" if (text.startswith("///") and not text.startswith("////")) or text.startswith("//!") else "comment"
            toks.append(Tok(kind, text, start, i, l0))
        elif src.startswith("/*", i):
            depth = 1
            i += 2
            while i < n and depth > 0:
                if src.startswith("/*", i):
                    depth += 1
                    i += 2
                elif src.startswith("*/", i):
                    depth -= 1
                    i += 2
                else:
                    if src[i] == "\n":
                        line += 1
                    i += 1
            text = src[start:i]
            kind = "doc" if text.startswith("/**") or text.startswith("/*!") else "comment"
            toks.append(Tok(kind, text, start, i, l0))
        elif c == '"' or (c == "b" and src.startswith('b"', i)):
            if c == "b":
                i += 1
            i += 1
            while i < n and src[i] != '"':
                if src[i] == "\\":
                    i += 1
                if i < n and src[i] == "\n":
                    line += 1
                i += 1
            i += 1
            toks.append(Tok("str", src[start:i], start, i, l0))
        elif c == "r" and re.match(r'r#*"', src[i:i + 8]):
            m = re.match(r'r(#*)"', src[i:])
            hashes = m.group(1)
            i += len(m.group(0))
            endmark = '"' + hashes
            j = src.find(endmark, i)
            if j < 0:
                j = n
            line += src.count("\n", i, j)
            i = j + len(endmark)
            toks.append(Tok("str", src[start:i], start, i, l0))
        elif c == "'":
            # char literal or lifetime
            m = re.match(r"'(\\.[^']*|[^\\'])'", src[i:])
            if m:
                i += len(m.group(0))
                toks.append(Tok("char", src[start:i], start, i, l0))
            else:
                i += 1
                while i < n and src[i] in IDENT_CONT:
                    i += 1
                toks.append(Tok("lifetime", src[start:i], start, i, l0))
        elif c in IDENT_START:
            while i < n and src[i] in IDENT_CONT:
                i += 1
            toks.append(Tok("ident", src[start:i], start, i, l0))
        elif c.isdigit():
            while i < n and (src[i] in IDENT_CONT or (src[i] == "." and i + 1 < n and src[i + 1].isdigit())):
                i += 1
            toks.append(Tok("num", src[start:i], start, i, l0))
        else:
            i += 1
            toks.append(Tok("punct", c, start, i, l0))
    return toks


def code_toks(toks):
    """Tokens that matter for structure (no ws / comments / docs)."""
    return [t for t in toks if t.kind not in ("ws", "comment", "doc")]


OPEN = {"(": ")", "[": "]", "{": "}"}
CLOSE = {")": "(", "]": "[", "}": "{"}


def match_close(ct, i):
    """ct: code tokens; ct[i] is an opening bracket; return index of its closer."""
    depth = 0
    for j in range(i, len(ct)):
        t = ct[j]
        if t.kind == "punct":
            if t.text in OPEN:
                depth += 1
            elif t.text in CLOSE:
                depth -= 1
                if depth == 0:
                    return j
    raise ValueError("unbalanced bracket at line %d" % ct[i].line)


class Item:
    """A syntactic item.  header = code tokens before the body/semicolon
    (attributes removed); body_open/body_close = token indices in the file's
    code-token list (None for `;` items)."""

    def __init__(self, kind, name, header, attrs, ct, h0, body_open, body_close, end):
        self.kind = kind
        self.name = name
        self.header = header          # list of Tok
        self.attrs = attrs            # list of attribute strings
        self.ct = ct
        self.h0 = h0                  # index of first header token
        self.body_open = body_open
        self.body_close = body_close
        self.end = end                # index of last token of the item
        self.children = []

    def header_text(self):
        return norm_tokens(self.header)

    @property
    def line(self):
        return self.header[0].line if self.header else self.ct[self.h0].line


def norm_tokens(toks):
    return " ".join(t.text for t in toks)


def norm_text(s):
    return norm_tokens(code_toks(lex(s)))


def scan_items(ct, lo, hi):
    """Scan items in ct[lo:hi] (a brace-free-at-depth-0 region such as a file or
    the inside of an impl/trait/mod block)."""
    items = []
    i = lo
    while i < hi:
        attrs = []
        # attributes
        while i < hi and ct[i].text == "#":
            j = i + 1
            if j < hi and ct[j].text == "!":
                j += 1
            if j < hi and ct[j].text == "[":
                k = match_close(ct, j)
                attrs.append(norm_tokens(ct[i:k + 1]))
                i = k + 1
            else:
                break
        if i >= hi:
            break
        h0 = i
        # header: up to first `{` or `;` at bracket depth 0
        depth = 0
        j = i
        body_open = None
        while j < hi:
            t = ct[j]
            if t.kind == "punct":
                if t.text in "([":
                    depth += 1
                elif t.text in ")]":
                    depth -= 1
                elif t.text == "{" and depth == 0:
                    body_open = j
                    break
                elif t.text == ";" and depth == 0:
                    break
            j += 1
        if j >= hi:
            break
        header = ct[h0:j]
        words = [t.text for t in header if t.kind == "ident"]
        kind, name = "other", None

        def after(kw):
            for k, t in enumerate(header):
                if t.kind == "ident" and t.text == kw and k + 1 < len(header):
                    return header[k + 1].text
            return None

        # item-level fn: only qualifiers may precede the `fn` keyword
        quals = {"pub", "const", "unsafe", "async", "extern", "default"}
        k = 0
        while k < len(header):
            t = header[k]
            if t.kind == "ident" and t.text == "fn":
                kind, name = "fn", after("fn")
                break
            if t.kind == "ident" and t.text in quals:
                k += 1
                if k < len(header) and header[k].text == "(" and t.text == "pub":
                    k = match_close(header, k) + 1
                continue
            if t.kind == "str":
                k += 1
                continue
            break
        if kind == "other":
            first = None
            for t in header:
                if t.kind == "ident" and t.text not in ("pub", "unsafe", "crate", "super", "in", "default"):
                    first = t.text
                    break
            if first == "impl":
                kind = "impl"
            elif first == "trait":
                kind, name = "trait", after("trait")
            elif first == "struct":
                kind, name = "struct", after("struct")
            elif first == "enum":
                kind, name = "enum", after("enum")
            elif first == "mod":
                kind, name = "mod", after("mod")
            elif first == "type":
                kind, name = "type", after("type")
            elif first == "const":
                kind, name = "const", after("const")
            elif first == "use":
                kind = "use"
        if body_open is not None:
            body_close = match_close(ct, body_open)
            end = body_close
            # tuple-struct / struct with trailing `;`? (struct X {..} has none)
        else:
            body_close = None
            end = j
        it = Item(kind, name, header, attrs, ct, h0, body_open, body_close, end)
        if kind in ("impl", "trait", "mod") and body_open is not None:
            it.children = scan_items(ct, body_open + 1, body_close)
        items.append(it)
        i = end + 1
    return items


class SourceFile:
    def __init__(self, path, text):
        self.path = path
        self.text = text
        self.toks = lex(text)
        self.ct = code_toks(self.toks)
        self.items = scan_items(self.ct, 0, len(self.ct))

    def find_container(self, header):
        want = norm_text(header)
        out = []

        def walk(items):
            for it in items:
                if it.kind in ("impl", "trait", "mod"):
                    if it.header_text() == want:
                        out.append(it)
                    walk(it.children)

        walk(self.items)
        return out

    def find_fn(self, container, name):
        """container: header text or '-' for file level."""
        if container in ("-", ""):
            cands = [it for it in self.items if it.kind == "fn" and it.name == name]
        else:
            cands = []
            for c in self.find_container(container):
                cands += [it for it in c.children if it.kind == "fn" and it.name == name]
        return cands

    def find_struct(self, name):
        return [it for it in self.items if it.kind == "struct" and it.name == name]

    def text_of(self, a, b):
        """Source text from code token index a to b inclusive."""
        return self.text[self.ct[a].start:self.ct[b].end]
