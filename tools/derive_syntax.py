"""Syntactic side condition of C20 for Clone / PartialEq / Eq / Hash of TooDee and the views.

These are `#[derive]`d (code behind a macro, outside every verifier here); C20's clause "two arrays
compare equal exactly when their dimensions and cells are equal, and equal arrays hash equally;
clone() yields an equal, independent array" is the field-wise meaning of the derives over the fields
data / num_cols / num_rows.  Checked on every run: the derives are still there, no hand-written
impl of those traits exists for the three types, and TooDee still has exactly those fields.
A deviation removes the justification of an assumption; the caller confirms it with the replay tool.
"""
import os
import re
import sys

sys.path.insert(0, os.path.dirname(os.path.abspath(__file__)))
from rustscan import SourceFile  # noqa: E402

WANT = {
    ("toodee.rs", "TooDee"): {"Clone", "Hash", "Eq", "PartialEq"},
    ("view.rs", "TooDeeView"): {"Clone", "Hash", "Eq", "PartialEq"},
    ("view.rs", "TooDeeViewMut"): {"Hash", "Eq", "PartialEq"},
}


def squeeze(toks):
    return "".join(t.text for t in toks)


def check(repo_src):
    problems = []
    files = {}
    for (fn, ty), want in WANT.items():
        sf = files.setdefault(fn, SourceFile(fn, open(os.path.join(repo_src, fn)).read()))
        st = [it for it in sf.items if it.kind == "struct" and it.name == ty]
        if len(st) != 1:
            problems.append("struct %s not found in %s" % (ty, fn))
            continue
        derived = set()
        for a in st[0].attrs:
            m = re.match(r"#\[derive\((.*)\)\]$", a.replace(" ", ""))
            if m:
                derived |= set(x.split("::")[-1] for x in m.group(1).split(",") if x)
        missing = want - derived
        if missing:
            problems.append("struct %s no longer derives %s (derives: %s)" % (ty, sorted(missing), sorted(derived)))
        if ty == "TooDee":
            btxt = squeeze(sf.ct[st[0].body_open + 1:st[0].body_close])
            fields = re.findall(r"(\w+):", re.sub(r"#\[.*?\]", "", btxt).replace("::", ""))
            if sorted(fields) != ["data", "num_cols", "num_rows"]:
                problems.append("struct TooDee fields are %s, expected data/num_cols/num_rows" % fields)
    for fn in sorted(os.listdir(repo_src)):
        if not fn.endswith(".rs") or fn.startswith("tests"):
            continue
        sf = files.get(fn) or SourceFile(fn, open(os.path.join(repo_src, fn)).read())
        for it in sf.items:
            if it.kind != "impl":
                continue
            h = squeeze(it.header)
            m = re.match(r"impl(<.*?>)?(core::|std::)?(cmp::|hash::|clone::)?(PartialEq|Eq|Hash|Clone)(<.*>)?for(TooDeeViewMut|TooDeeView|TooDee)<", h)
            if m:
                problems.append("hand-written `%s` in %s replaces the derived field-wise implementation" % (h[:80], fn))
    return problems


if __name__ == "__main__":
    print(check(os.path.join(os.environ.get("VERIF_REPO", "/repo"), "src")))
