#!/bin/sh
# run every claimed check (quick tier by default), print a summary line per property
cd "$(dirname "$0")/.."
tier=${1:-quick}
for p in $(python3 -c "import json;print(' '.join(c['property_id'] for c in json.load(open('MANIFEST.json'))['checks']))"); do
  s=$(date +%s); out=$(./check $p $tier 2>&1); rc=$?; e=$(date +%s)
  echo "$p rc=$rc $((e-s))s :: $(echo "$out" | grep -E 'obligations' | head -1 | cut -c1-110)"
  echo "$out" | grep -E 'VIOLATION|UNDECIDED' | head -3
done
