#!/usr/bin/env python3
"""crlf_patch.py FILE  (reads a python list of (old,new) pairs from stdin as JSON) - replace text preserving the file's line endings."""
import sys, json
p = sys.argv[1]
s = open(p, newline='').read()
crlf = "\r\n" in s
pairs = json.load(sys.stdin)
for old, new in pairs:
    if crlf:
        old = old.replace("\r\n", "\n").replace("\n", "\r\n")
        new = new.replace("\r\n", "\n").replace("\n", "\r\n")
    n = s.count(old)
    want = 1
    if n != want:
        print("ERROR: %d occurrences of %r" % (n, old[:60])); sys.exit(1)
    s = s.replace(old, new)
open(p, 'w', newline='').write(s)
print("patched", p)
