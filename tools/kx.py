"""kx: bounded Kani stand-ins (filled in later)."""
def run_families(repo, fams, tier, tag):
    return {"failed": [], "undecided": ["kani families not built yet: %s" % fams], "checks": 0, "harnesses": []}
