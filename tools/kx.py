#!/usr/bin/env python3
"""kx: bounded Kani stand-ins.

The harness file /verif/kani/verif_kani.rs is copied into a SCRATCH COPY of the repo under test
(outside /repo and /verif), registered in the copy's lib.rs under cfg(kani), and the requested
harnesses are run with `cargo kani`.  The scratch copy and its target/ are removed afterwards.
Results are labelled *bounded* (concrete shapes; see each harness) and never counted as proved.
"""
import os
import re
import shutil
import subprocess
import sys
import tempfile
import time

HERE = os.path.dirname(os.path.abspath(__file__))
VERIF = os.path.dirname(HERE)
HARNESS_FILE = os.path.join(VERIF, "kani", "verif_kani.rs")


def list_harnesses():
    txt = open(HARNESS_FILE).read()
    out = []
    for m in re.finditer(r"^\s*(h|hp|hl)!\((\w+),\s*(\w+)", txt, re.M):
        out.append({"name": m.group(2), "family": m.group(3), "should_panic": m.group(1) == "hp"})
    return out


def select(fams):
    """fams: list of regexes over harness names."""
    hs = list_harnesses()
    sel = []
    for h in hs:
        if any(re.search(f, h["name"]) for f in fams):
            sel.append(h)
    return sel


def run_families(repo, fams, tier, tag, jobs=16, timeout_s=600):
    t0 = time.time()
    res = {"failed": [], "undecided": [], "checks": 0, "harnesses": [], "bounded": True,
           "bounds": "concrete shapes named in each harness (mostly CxR <= 4x4; up to 9 rows for translate), u8 or drop-ledger cells, symbolic indices, probe cells, capacity mode and drain splits; loops unwound 8 times with unwinding assertions",
           "tool": "kani 0.68 / cbmc"}
    sel = select(fams)
    if not sel:
        res["undecided"].append("no harness matches %s" % fams)
        return res
    scratch = tempfile.mkdtemp(prefix="toodee-kx-%s-" % tag)
    try:
        dst = os.path.join(scratch, "toodee")
        shutil.copytree(repo, dst, ignore=shutil.ignore_patterns("target", ".git", "_out", "tests"))
        shutil.copy(HARNESS_FILE, os.path.join(dst, "src", "verif_kani.rs"))
        lib = os.path.join(dst, "src", "lib.rs")
        with open(lib, "a") as f:
            f.write("\n#[cfg(kani)]\nmod verif_kani;\n")
        env = dict(os.environ)
        env["CARGO_NET_OFFLINE"] = "true"
        env["CARGO_TARGET_DIR"] = os.path.join(scratch, "target")
        base = ["cargo", "kani", "--output-format", "regular"]
        res["cmd"] = "cd <scratch copy of %s> && CARGO_NET_OFFLINE=true cargo kani --output-format regular --harness <each of %d harnesses> (pool of %d processes)" % (repo, len(sel), jobs)

        def run_one(h):
            try:
                p = subprocess.run(base + ["--harness", h["name"]], cwd=dst, env=env, stdout=subprocess.PIPE,
                                   stderr=subprocess.STDOUT, universal_newlines=True, timeout=timeout_s)
                return p.stdout
            except subprocess.TimeoutExpired:
                return "TIMEOUT %s" % h["name"]

        outs = []
        # warm-up: the first run compiles the crate once; the pool then shares the build
        outs.append(run_one(sel[0]))
        from concurrent.futures import ThreadPoolExecutor
        with ThreadPoolExecutor(max_workers=jobs) as ex:
            outs += list(ex.map(run_one, sel[1:]))
        for o in outs:
            if o.startswith("TIMEOUT"):
                res["undecided"].append("kani timed out: %s" % o)
        out = "\n".join(outs)
        parse(out, sel, res)
    finally:
        shutil.rmtree(scratch, ignore_errors=True)
    res["wall_s"] = round(time.time() - t0, 1)
    return res


def parse(out, sel, res):
    by = {h["name"]: h for h in sel}
    # with -j the per-harness logs are printed as blocks starting "Thread N: Checking harness X..." or "Checking harness X..."
    blocks = re.split(r"(?m)^(?:Thread \d+:\s*)?Checking harness ", out)
    seen = set()
    for b in blocks[1:]:
        m = re.match(r"([\w:]+)\.\.\.", b)
        if not m:
            continue
        full = m.group(1)
        name = full.split("::")[-1]
        if name not in by:
            continue
        seen.add(name)
        h = by[name]
        status = None
        ms = re.search(r"VERIFICATION:-\s*(SUCCESSFUL|FAILED)", b)
        if ms:
            status = ms.group(1)
        nchecks = len(re.findall(r"(?m)^Check \d+:", b))
        res["checks"] += nchecks
        tm = re.search(r"Verification Time:\s*([\d.]+)s", b)
        hrec = {"harness": name, "family": h["family"], "status": status, "checks": nchecks,
                "time_s": float(tm.group(1)) if tm else None, "should_panic": h["should_panic"]}
        res["harnesses"].append(hrec)
        # failed checks
        fails = []
        for cm in re.finditer(r"(?m)^Check \d+: (.+)\n\s*- Status: (\w+)\n\s*- Description: \"(.*?)\"\n(?:\s*- Location: (.*?)\n)?", b):
            cid, st, desc, loc = cm.group(1), cm.group(2), cm.group(3), cm.group(4)
            if "RETURNED-NORMALLY" in desc:
                if st == "SATISFIED":
                    fails.append(("call with invalid arguments returned normally (must panic)", loc))
                continue
            if st == "FAILURE":
                fails.append((desc, loc))
        if h["should_panic"]:
            # every failure in a must-panic harness that is an assertion of the CRATE is the expected
            # panic; only harness-side properties count: RETURNED-NORMALLY cover, C01/C05/C11 asserts,
            # and memory-safety checks
            fails = [(d, l) for (d, l) in fails
                     if "returned normally" in d or re.match(r"C\d\d ", d) or is_memory_check(d)]
            if status is None:
                res["undecided"].append("%s: no verdict" % name)
        else:
            if status is None:
                res["undecided"].append("%s: no verdict (timeout / out of memory?)" % name)
            elif status == "FAILED" and not fails:
                fails.append(("verification failed (see kani output)", None))
        for d, l in fails:
            res["failed"].append({"harness": name, "check": d, "detail": "kani harness %s (%s): %s at %s" % (name, h["family"], d, l)})
    for h in sel:
        if h["name"] not in seen:
            res["undecided"].append("%s: harness not run (compile error?) %s" % (h["name"], tail_err(out)))
            break


def is_memory_check(desc):
    return any(k in desc for k in ("dereference failure", "pointer", "out of bounds", "double free", "memory leak", "misaligned",
                                   "unwinding assertion", "arithmetic overflow", "attempt to"))


def tail_err(out):
    errs = [l for l in out.split("\n") if l.startswith("error")]
    return " | ".join(errs[:3])


if __name__ == "__main__":
    import json
    repo = os.environ.get("VERIF_REPO", "/repo")
    r = run_families(repo, sys.argv[1:], "quick", "cli")
    print(json.dumps(r, indent=1))
