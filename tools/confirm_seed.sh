#!/bin/sh
# confirm_seed.sh <id>: for each seeded change of the property in its scratch worktree /tmp/mw/<id>:
#   patch applies to the current /repo HEAD, existing suite passes with it, demo fails with it, demo passes without it.
id=$1
W=/tmp/mw/$id
out=/verif/seeded
for n in ${SEEDS:-1 2}; do
  d=$W/_out/$n
  [ -f $d/patch.diff ] || continue
  dest=$out/$id-$n
  mkdir -p $dest
  cd $W && git checkout -q -- . && rm -rf tests
  log=$dest/confirm.log; : > $log
  if ! git apply --check $d/patch.diff 2>>$log; then echo "$id-$n PATCH-DOES-NOT-APPLY" | tee -a $log; continue; fi
  git apply $d/patch.diff
  mkdir -p tests && cp $d/demo.rs tests/demo_seed.rs
  suite=$(cargo test --offline --lib 2>&1 | grep -E '^test result' | head -1)
  echo "suite with change: $suite" >> $log
  cargo test --offline --test demo_seed > $dest/demo_with_change.txt 2>&1; rc_with=$?
  git checkout -q -- src
  cargo test --offline --test demo_seed > $dest/demo_without_change.txt 2>&1; rc_without=$?
  rm -rf tests
  echo "demo with change exit=$rc_with ; without change exit=$rc_without" >> $log
  cp $d/patch.diff $dest/patch.diff; cp $d/demo.rs $dest/demo.rs; cp $d/meta.json $dest/agent_meta.json
  ok=no; case "$suite" in *"134 passed; 0 failed"*) [ $rc_with -ne 0 ] && [ $rc_without -eq 0 ] && ok=yes;; esac
  echo "$id-$n confirmed=$ok suite=[$suite] demo_with=$rc_with demo_without=$rc_without" | tee -a $log
  # keep the logs short
  tail -c 3000 $dest/demo_with_change.txt > $dest/demo_with_change.tail.txt; rm $dest/demo_with_change.txt
  tail -c 1500 $dest/demo_without_change.txt > $dest/demo_without_change.tail.txt; rm $dest/demo_without_change.txt
done
rm -rf $W/target
