#!/usr/bin/env python3
"""Drift guard for the code that is TRUSTED rather than verified (DESIGN section 9).

Raw-pointer code (the unsafe blocks of insert_row / insert_col / remove_col that Verus sees only as
contracted stubs, DrainCol's iterator and destructor, sorted_box_to_ordering) and a few macro-ish or
trivially delegating functions are outside every contract.  Their contracts are assumptions justified
by (a) the bounded Kani harnesses and (b) the text that was read when the stub contracts were written.
(b) is made checkable: the token text (comments and layout ignored) of each trusted piece is hashed
into contracts/trusted_text.json; on every run the current /repo text is compared with it.

A changed trusted text is NOT a violation.  It means an assumption of the properties that depend on
that piece is no longer backed by the reviewed text: the check consults the bounded tools (Kani
families of the property, replay search); a concrete failing input makes it a VIOLATION, otherwise the
property is reported UNDECIDED (exit 2) - never a silent pass on unreviewed unsafe code.

usage: trusted_text.py record   (rewrite contracts/trusted_text.json from $VERIF_REPO or /repo)
       trusted_text.py check
"""
import hashlib
import json
import os
import re
import sys

sys.path.insert(0, os.path.dirname(os.path.abspath(__file__)))
from rustscan import SourceFile  # noqa: E402

V = os.path.dirname(os.path.dirname(os.path.abspath(__file__)))
STORE = os.path.join(V, "contracts", "trusted_text.json")

# (key regex, properties whose claim leans on this text, why it is trusted)
TRUSTED = [
    (r"^toodee\.rs\|.*\|insert_row#unsafe\d+$", ["C01", "C05", "C06", "C11"], "raw-pointer block of insert_row (R5c stub; bounded Kani)"),
    (r"^toodee\.rs\|.*\|insert_col#unsafe\d+$", ["C01", "C05", "C06", "C11"], "raw-pointer block of insert_col (R5c stub; bounded Kani)"),
    (r"^toodee\.rs\|.*\|remove_col#unsafe\d+$", ["C01", "C05", "C07", "C11", "C12"], "raw-pointer block of remove_col (R5c stub; bounded Kani)"),
    (r"^toodee\.rs\|impl.*(Iterator|DoubleEndedIterator|ExactSizeIterator).*for DrainCol.*\|", ["C05", "C07", "C12"], "DrainCol cursor over raw pointers (bounded Kani)"),
    (r"^toodee\.rs\|impl.*Drop for (DrainCol|DropGuard).*\|drop$", ["C01", "C05", "C07", "C11", "C12"], "DrainCol destructor / DropGuard: closes the gap left by the removed column (bounded Kani)"),
    (r"^sort\.rs\|-\|sorted_box_to_ordering$", ["C16", "C17"], "raw cast of the sorted side buffer (inside the R5d stub)"),
    (r"^(toodee|view)\.rs\|impl.*IntoIterator for &'a mut .*\|into_iter$", ["C10"], "IntoIterator on &mut: one-line delegations to cells_mut() (CellsMut not instantiated a second time)"),
    (r"^flattenexact\.rs\|.*\|(fold|rfold)$", ["C10"], "FlattenExact fold/rfold (closure-passing; not under contract)"),
    (r"^ops\.rs\|.*\|cells_mut$", ["C10"], "cells_mut: FlattenExact::new(self.rows_mut()) (CellsMut not instantiated a second time)"),
    (r"^serde\.rs\|.*\|(deserialize|expecting)$", ["C18", "C19"], "Deserialize entry point: deserialize_struct(\"TooDee\", FIELDS, visitor)"),
]


def squeeze(toks):
    return "".join(t.text for t in toks)


def scan(repo_src):
    out = {}
    for fn in sorted(os.listdir(repo_src)):
        if not fn.endswith(".rs") or fn.startswith("tests") or fn == "lib.rs":
            continue
        sf = SourceFile(fn, open(os.path.join(repo_src, fn)).read())

        def walk(items, cont):
            for it in items:
                if it.kind == "fn" and it.body_open is not None:
                    key = "%s|%s|%s" % (fn, cont, it.name)
                    body = sf.ct[it.h0:it.body_close + 1]
                    k = key
                    n = 2
                    while k in out:
                        k = "%s~%d" % (key, n)
                        n += 1
                    out[k] = hashlib.sha256(squeeze(body).encode()).hexdigest()[:16]
                    # unsafe blocks
                    u = 0
                    i = it.body_open
                    while i < it.body_close:
                        t = sf.ct[i]
                        if t.kind == "ident" and t.text == "unsafe" and sf.ct[i + 1].text == "{":
                            depth = 0
                            j = i + 1
                            while j <= it.body_close:
                                if sf.ct[j].text == "{":
                                    depth += 1
                                elif sf.ct[j].text == "}":
                                    depth -= 1
                                    if depth == 0:
                                        break
                                j += 1
                            u += 1
                            out["%s#unsafe%d" % (k, u)] = hashlib.sha256(squeeze(sf.ct[i:j + 1]).encode()).hexdigest()[:16]
                            i = j
                        i += 1
                elif it.kind in ("impl", "trait"):
                    walk(it.children, re.sub(r"\s+", " ", sf.text_of(it.h0, it.body_open - 1)).strip())
                elif it.kind == "mod" and not it.name.startswith("test"):
                    walk(it.children, cont)
        walk(sf.items, "-")
    return out


def trusted_keys(hashes):
    sel = {}
    for k in hashes:
        for rx, props, why in TRUSTED:
            if re.search(rx, k):
                sel[k] = (props, why)
                break
    return sel


def record(repo_src):
    h = scan(repo_src)
    sel = trusted_keys(h)
    doc = {"note": "token-text hashes of trusted (unverified) code; regenerate with tools/trusted_text.py record after reviewing a change",
           "entries": {k: {"sha": h[k], "properties": sel[k][0], "why": sel[k][1]} for k in sorted(sel)},
           # every function that exists in the non-test sources (names only): a function that is NOT in this
           # inventory is new code no contract and no review has seen (e.g. an override of a provided
           # iterator method, a hand-written Clone) - see new_functions()
           "inventory": sorted(k for k in h if "#unsafe" not in k)}
    json.dump(doc, open(STORE, "w"), indent=1)
    return doc


def check(repo_src, pid=None):
    """-> list of (key, why, what) drifted entries relevant to property pid (all if None)"""
    doc = json.load(open(STORE))
    h = scan(repo_src)
    cur = trusted_keys(h)
    out = []
    for k, e in doc["entries"].items():
        if pid and not (set(pid if isinstance(pid, (list, tuple)) else [pid]) & set(e["properties"])):
            continue
        if k not in h:
            out.append((k, e["why"], "trusted piece no longer found (renamed, removed or restructured)"))
        elif h[k] != e["sha"]:
            out.append((k, e["why"], "text changed since it was reviewed"))
    for k, (props, why) in cur.items():
        if k not in doc["entries"] and (not pid or (set(pid if isinstance(pid, (list, tuple)) else [pid]) & set(props))):
            out.append((k, why, "new piece of trusted code"))
    return out


def new_functions(repo_src):
    """-> list of (file, container, name) present now but not in the recorded inventory"""
    doc = json.load(open(STORE))
    inv = set(doc.get("inventory", []))
    out = []
    for k in scan(repo_src):
        if "#unsafe" in k or k in inv:
            continue
        f, c, n = k.split("|", 2)
        out.append((f, c, n))
    return out


if __name__ == "__main__":
    src = os.path.join(os.environ.get("VERIF_REPO", "/repo"), "src")
    if sys.argv[1:] == ["record"]:
        d = record(src)
        print("recorded %d trusted pieces" % len(d["entries"]))
        for k in d["entries"]:
            print("  ", k)
    else:
        for r in check(src):
            print(r)
