#!/usr/bin/env python3
"""check.py --property Cxx [--tier quick|thorough]

Decides one property of /verif/properties.jsonl for the CURRENT working tree of
/repo (override with VERIF_REPO for scratch worktrees) by

  1. extracting the real functions of /repo/src into one Verus file (vx.py),
  2. running Verus on it (all inputs, all iterations, no bound),
  3. running the property's bounded Kani families (stand-in for raw-pointer code),
  4. classifying every obligation listed for the property.

Exit 0: every obligation of the property discharged (known findings printed).
Exit 1: `VIOLATION property=<id> replay=<path>` for a failed obligation.
Exit 2: UNDECIDED (lost anchor, unsupported construct, solver limit) - never an alarm.
"""
import argparse
import hashlib
import json
import os
import re
import shutil
import subprocess
import sys
import time

HERE = os.path.dirname(os.path.abspath(__file__))
VERIF = os.path.dirname(HERE)
sys.path.insert(0, HERE)
import vx  # noqa: E402

REPO = os.environ.get("VERIF_REPO", "/repo")
GEN_DIR = os.path.join(VERIF, ".gen")
# evidence and replays of runs against a scratch worktree never overwrite those of /repo
_SCRATCH = os.path.abspath(REPO) != "/repo"
EVID_DIR = os.path.join(VERIF, ".gen", "evidence_scratch") if _SCRATCH else os.path.join(VERIF, "evidence")
REPLAY_DIR = os.path.join(VERIF, ".gen", "replays_scratch") if _SCRATCH else os.path.join(VERIF, "replays")
TEMPLATE = os.path.join(VERIF, "contracts", "toodee.vt")
PROPMAP = os.path.join(VERIF, "contracts", "properties.json")
KNOWN = os.path.join(VERIF, "known_findings.txt")

VERIFICATION_MESSAGES = (
    "postcondition not satisfied",
    "precondition not satisfied",
    "assertion failed",
    "possible arithmetic underflow/overflow",
    "possible division by zero",
    "invariant not satisfied",
    "loop invariant not satisfied",
    "decreases not satisfied",
    "value may fail to meet its declared type invariant",
    "type invariant",
    "cannot show",
    "possible bit shift underflow/overflow",
    "recommendation not met",
    "function body check",
    "unable to prove",
    "might not be allowed",
    "constructed value may fail to meet its declared type invariant",
)
SOLVER_LIMIT_MESSAGES = ("resource limit", "rlimit", "timed out", "solver returned unknown")


def sh(cmd, **kw):
    return subprocess.run(cmd, stdout=subprocess.PIPE, stderr=subprocess.PIPE, universal_newlines=True, **kw)


def repo_src_hash(src):
    h = hashlib.sha256()
    for f in sorted(os.listdir(src)):
        if f.endswith(".rs"):
            h.update(f.encode())
            h.update(open(os.path.join(src, f), "rb").read())
    return h.hexdigest()[:16]


# ---------------------------------------------------------------------------
# Verus

class VerusResult:
    def __init__(self):
        self.status = "ok"           # ok | undecided
        self.undecided_reason = None
        self.fn_success = {}         # verus name -> [bool,...]
        self.fn_time_us = {}
        self.diags = []              # verification errors: dict(msg, gen_line, fn_rec, origin, clause, rendered)
        self.compile_errors = []
        self.wall_s = 0.0
        self.cmd = ""
        self.total_verified = 0
        self.total_errors = 0
        self.meta = None
        self.gen_path = None
        self.smt_ms = 0


def fn_verus_name(rec):
    """crate::module::Type::fn as Verus prints it in function-breakdown."""
    mod = rec["module"]
    cont = rec["container"]
    if rec.get("free_name"):
        return "toodee_v::" + rec["free_name"]
    if rec.get("vname"):
        return "toodee_v::" + rec["vname"]
    base = "toodee_v"
    if mod:
        base += "::" + mod
    if cont in ("-", ""):
        return base + "::" + rec["name"]
    toks = vx.code_texts(cont)
    # strip leading `unsafe`, `impl`, generic params
    i = 0
    while i < len(toks) and toks[i] in ("pub", "unsafe"):
        i += 1
    kind = toks[i]
    i += 1
    if i < len(toks) and toks[i] == "<" and kind == "impl":
        d = 0
        while i < len(toks):
            if toks[i] == "<":
                d += 1
            elif toks[i] == ">":
                d -= 1
                if d == 0:
                    i += 1
                    break
            i += 1
    rest = toks[i:]
    if kind == "trait":
        ty = rest[0]
    else:
        if "for" in rest:
            k = len(rest) - 1 - rest[::-1].index("for")
            rest = rest[k + 1:]
        # self type: first identifier that is not & / mut / lifetime
        ty = None
        for t in rest:
            if re.match(r"^[A-Za-z_]\w*$", t) and t not in ("mut", "dyn", "where"):
                ty = t
                break
    ext = {"Vec": "alloc::vec::Vec", "Box": "alloc::boxed::Box"}
    if kind != "trait" and ty in ext:
        return "%s::%s" % (ext[ty], rec["name"])
    return "%s::%s::%s" % (base, ty, rec["name"])


def run_verus(repo_src, tag, rlimit=None, threads=16):
    """Run extraction + Verus; when Verus REJECTS the file (unsupported construct, type error) because
    of text inside contracted repository functions, those functions are degraded to contract-only
    (not verified, flagged) and the rest of the file is verified again - one unverifiable function
    must not make every property undecided."""
    force = {}
    res = None
    for attempt in range(4):
        res = _run_verus_once(repo_src, tag, rlimit, threads, force)
        # (a "vir error" aborts Verus before verification; its message may look like a verification failure)
        errs = res.compile_errors or [dict(d, kind="compile") for d in res.diags]
        if res.status != "undecided" or not errs:
            break
        new = {}
        for d in errs:
            if d.get("kind") != "compile":
                continue
            r = d.get("fn")
            if r is None:
                new = None
                break
            if r.get("twin_of"):
                f_, c_, n_ = r["twin_of"].split("|", 2)
            else:
                f_, c_, n_ = r["file"], r["container"], r["name"]
            new[(f_, c_, n_)] = d["msg"][:160]
        if not new or all(k in force for k in new):
            break
        force.update(new)
    return res


def _run_verus_once(repo_src, tag, rlimit=None, threads=16, force_degrade=None):
    res = VerusResult()
    os.makedirs(GEN_DIR, exist_ok=True)
    out = os.path.join(GEN_DIR, "toodee_v_%s.rs" % tag)
    # the crate name Verus derives from the file name must be stable
    work = os.path.join(GEN_DIR, tag)
    shutil.rmtree(work, ignore_errors=True)
    os.makedirs(work)
    out = os.path.join(work, "toodee_v.rs")
    t0 = time.time()
    try:
        g, meta = vx.generate(TEMPLATE, repo_src, out, force_degrade=force_degrade)
    except vx.ExtractError as e:
        res.status = "undecided"
        res.undecided_reason = "extract: %s" % e
        return res
    res.meta = meta
    res.gen_path = out
    cmd = ["verus", "toodee_v.rs", "--num-threads", str(threads), "--output-json", "--time",
           "--error-format=json", "--multiple-errors", "5", "--rlimit", str(rlimit or 60)]
    res.cmd = "cd %s && %s" % (work, " ".join(cmd))
    p = sh(cmd, cwd=work)
    if any(m in p.stderr.lower() for m in ("resource limit", "rlimit")):
        # solver instability is not a verdict: retry once with another seed and a larger budget
        cmd2 = cmd[:-2] + ["--rlimit", "300", "--smt-option", "smt.random_seed=7"]
        res.cmd += "   (retried after a resource-limit report: %s)" % " ".join(cmd2)
        p = sh(cmd2, cwd=work)
    res.wall_s = time.time() - t0
    # stdout: JSON summary; stderr: one JSON diagnostic per line
    try:
        js = json.loads(p.stdout)
    except Exception:
        js = None
    fnrecs = meta["fns"]
    linemap = meta["linemap"]

    def fn_at(line):
        for r in fnrecs:
            if r["gen_line"] <= line <= r.get("gen_end", r["gen_line"]):
                return r
        return None

    for ln in p.stderr.split("\n"):
        ln = ln.strip()
        if not ln.startswith("{"):
            continue
        try:
            d = json.loads(ln)
        except Exception:
            continue
        if d.get("level") != "error":
            continue
        msg = d.get("message", "")
        if msg.startswith("aborting due to"):
            continue
        spans = d.get("spans", [])
        prim = [s for s in spans if s.get("is_primary")] or spans
        line = prim[0]["line_start"] if prim else 0
        # the function is located by ANY span inside a contracted function (the primary span of a
        # failed precondition points at the callee's requires clause)
        rec = None
        all_recs = []
        for s in prim + [x for x in spans if x not in prim]:
            r_ = fn_at(s["line_start"])
            if r_ is not None and r_ not in all_recs:
                all_recs.append(r_)
        rec = all_recs[0] if all_recs else None
        clause = ""
        if prim:
            clause = " ".join(t["text"].strip() for t in prim[0].get("text", []))[:300]
        origin = None
        for s in spans:
            a = s["line_start"] - 1
            if 0 <= a < len(linemap) and linemap[a]:
                origin = linemap[a]
                break
        entry = {"msg": msg, "gen_line": line, "fn": rec, "all_fns": all_recs, "origin": origin, "clause": clause,
                 "rendered": d.get("rendered", "")[:4000], "code": (d.get("code") or {}).get("code")}
        is_verif = any(m in msg for m in VERIFICATION_MESSAGES) and not entry["code"]
        is_limit = any(m in msg.lower() for m in SOLVER_LIMIT_MESSAGES)
        if is_limit:
            entry["kind"] = "limit"
            res.compile_errors.append(entry)
        elif is_verif:
            entry["kind"] = "verification"
            res.diags.append(entry)
        else:
            entry["kind"] = "compile"
            res.compile_errors.append(entry)
    if js is None:
        res.status = "undecided"
        res.undecided_reason = "verus produced no JSON summary: %s" % (p.stderr[-800:])
        return res
    vr = js.get("verification-results", {})
    res.total_verified = vr.get("verified", 0)
    res.total_errors = vr.get("errors", 0)
    tm = js.get("times-ms", {})
    res.smt_ms = tm.get("smt", {}).get("total", 0)
    for m in tm.get("smt", {}).get("smt-run-module-times", []):
        for f in m.get("function-breakdown", []):
            res.fn_success.setdefault(f["function"], []).append(bool(f["success"]))
            res.fn_time_us[f["function"]] = res.fn_time_us.get(f["function"], 0) + f.get("time-micros", 0)
    # a failed precondition carries two spans: the callee's `requires` clause (often the primary one, and
    # inside ANOTHER contracted function's signature) and the call site.  The diagnostic belongs to the
    # function Verus reports as failed.
    for d in res.diags:
        if d["fn"] is None or len(d.get("all_fns", [])) < 2:
            continue
        ok = res.fn_success.get(fn_verus_name(d["fn"]))
        if ok is None or all(ok):
            for alt in d["all_fns"]:
                ok2 = res.fn_success.get(fn_verus_name(alt))
                if ok2 is not None and not all(ok2):
                    d["fn"] = alt
                    break
    # ---- heuristic incompleteness is not a verdict: a function that failed is re-tried on its own
    # with other solver seeds; ANY successful run is a proof of that function.
    failed = sorted(n for n, ok in res.fn_success.items() if not all(ok))
    res.retries = {}
    if failed and not vr.get("encountered-vir-error") and len(failed) <= 12:
        keep = []
        known_all, _ = load_known()

        def all_known(name):
            ds = [d for d in res.diags if d["fn"] is not None and fn_verus_name(d["fn"]) == name]
            if not ds:
                return False
            for d in ds:
                ob = ("%s|%s|%s :: %s :: %s" % (d["fn"]["file"], d["fn"]["container"], d["fn"]["name"], d["msg"], d["clause"])).replace(" ", "")
                if not any(k.get("obligation") and k["obligation"] in ob for k in known_all):
                    return False
            return True
        for name in failed:
            if all_known(name):
                continue
            short = name.split("::", 1)[1] if name.startswith("toodee_v::") else name
            if "::" in short and short.split("::")[0] in ("lemmas_rows", "lemmas_grid", "prelude"):
                mod, fn = short.split("::", 1)
                sel = ["--verify-module", mod, "--verify-function", fn]
            else:
                sel = ["--verify-root", "--verify-function", short]
            ok = False
            for seed in (1, 7, 13):
                c2 = ["verus", "toodee_v.rs", "--num-threads", "4", "--output-json", "--time", "--error-format=json",
                      "--rlimit", "300", "--smt-option", "smt.random_seed=%d" % seed] + sel
                p2 = sh(c2, cwd=work)
                try:
                    j2 = json.loads(p2.stdout)
                except Exception:
                    continue
                succ = []
                for m in j2.get("times-ms", {}).get("smt", {}).get("smt-run-module-times", []):
                    for f in m.get("function-breakdown", []):
                        if f["function"] == name:
                            succ.append(bool(f["success"]))
                if succ and all(succ) and not j2.get("verification-results", {}).get("encountered-vir-error"):
                    ok = True
                    res.retries[name] = "verified on retry with smt.random_seed=%d" % seed
                    break
            if ok:
                res.fn_success[name] = [True] * len(res.fn_success[name])
                keep.append(name)
        if keep:
            # drop the diagnostics that belong to functions proved on retry
            def owner(d):
                return fn_verus_name(d["fn"]) if d["fn"] is not None else None
            res.diags = [d for d in res.diags if owner(d) not in keep]
            res.total_errors = max(0, res.total_errors - len(keep))
    if vr.get("encountered-vir-error") or (res.compile_errors and not res.fn_success):
        res.status = "undecided"
        ce = res.compile_errors[0] if res.compile_errors else {"msg": "vir error", "rendered": p.stderr[-800:]}
        res.undecided_reason = "verus rejected the generated file (not a verification failure): %s" % ce["msg"]
    return res


# ---------------------------------------------------------------------------

def load_known():
    known, fixed = [], []
    if os.path.exists(KNOWN):
        for ln in open(KNOWN):
            ln = ln.strip()
            if ln.startswith("known:"):
                d = dict(re.findall(r"(\w+)=(\S+)", ln))
                d["text"] = ln
                known.append(d)
            elif ln.startswith("fixed:"):
                fixed.append(ln)
    return known, fixed


def count_clauses(gen_lines, rec):
    """ensures clauses of a contracted function = top-level comma separated items
    after `ensures` up to the body `{`."""
    a = rec["gen_line"] - 1
    b = rec.get("gen_end", rec["gen_line"])
    text = "\n".join(gen_lines[a:b])
    m = re.search(r"\bensures\b", text)
    if not m:
        return []
    # contract ends at first line that is exactly "{" or ";"
    seg = text[m.end():]
    end = re.search(r"^\s*[{;]\s*$", seg, re.M)
    seg = seg[:end.start()] if end else seg
    seg = re.split(r"\b(requires|decreases|no_unwind|opens_invariants)\b", seg)[0]
    clauses, cur, depth = [], "", 0
    for ch in seg:
        if ch in "([{":
            depth += 1
        elif ch in ")]}":
            depth -= 1
        if ch == "," and depth == 0:
            if cur.strip():
                clauses.append(" ".join(cur.split()))
            cur = ""
        else:
            cur += ch
    if cur.strip():
        clauses.append(" ".join(cur.split()))
    clauses = [re.sub(r"//.*$", "", c).strip() for c in clauses]
    return [c for c in clauses if c]


def match_fn(rec, pats):
    fid = "%s|%s|%s" % (rec["file"], rec["container"], rec["name"])
    for p in pats:
        if p.startswith("re:"):
            if re.search(p[3:], fid):
                return True
        elif p == fid or p == "%s|*|%s" % (rec["file"], rec["name"]):
            return True
        elif p.endswith("|*") and fid.startswith(p[:-1]):
            return True
    return False


def main():
    ap = argparse.ArgumentParser()
    ap.add_argument("--property", required=True)
    ap.add_argument("--tier", default=os.environ.get("VERIF_TIER", "quick"))
    ap.add_argument("--no-kani", action="store_true")
    args = ap.parse_args()
    pid = args.property
    tier = args.tier if args.tier in ("quick", "thorough") else "quick"
    seed = int(os.environ.get("VERIF_SEED", "0") or 0)
    t0 = time.time()
    propmap = json.load(open(PROPMAP))
    if pid not in propmap["properties"]:
        print("UNDECIDED property %s has no check" % pid)
        sys.exit(2)
    pm = propmap["properties"][pid]
    # a property that quantifies over "any array / any view" leans on the operations that establish
    # the shape invariant (C01) and on the view constructors (C03): their contracted functions are
    # dependencies of this property too (Verus part and trusted-text guard only; not their Kani families)
    inherits = pm.get("inherits", [])
    pm["own_verus_fns"] = list(pm.get("verus_fns", []))
    for q in inherits:
        qp = propmap["properties"][q]
        pm["verus_fns"] = pm.get("verus_fns", []) + [f for f in qp.get("verus_fns", []) if f not in pm.get("verus_fns", [])]
        if pid != "C12":   # (the leak clause of remove_row is C12's own obligation)
            pm["ignore_clauses"] = pm.get("ignore_clauses", []) + [c for c in qp.get("ignore_clauses", []) if c not in pm.get("ignore_clauses", [])]
    repo_src = os.path.join(REPO, "src")
    tag = "%s_%s_%d" % (pid, tier, os.getpid())
    if pm.get("verus_fns"):
        vr = run_verus(repo_src, tag, rlimit=(120 if tier == "thorough" else None))
    else:
        vr = VerusResult()
        vr.status = "skipped"
        vr.cmd = "(no function of this property is within Verus's reach; bounded Kani stand-in only)" 

    violations = []     # dicts: obligation, msg, detail, fn
    assumed_fns = []
    lost_fail = []      # failed obligations in functions whose proof-hint anchors were lost
    unverifiable = []   # contracted functions the extractor/verifier could not take (contract-only this run)
    undecided = []
    known, fixed = load_known()
    functions = []
    obligations = 0
    discharged = 0
    samples = []
    lemma_count = 0
    lemma_ok = 0
    rewrites = {}
    if vr.status == "undecided":
        undecided.append(vr.undecided_reason)
    elif vr.status == "skipped":
        pass
    else:
        meta = vr.meta
        rewrites = meta["rewrites"]
        gen_lines = open(vr.gen_path).read().split("\n")
        recs = [r for r in meta["fns"] if match_fn(r, pm.get("verus_fns", []))]
        if not recs and pm.get("verus_fns"):
            undecided.append("no contracted function matched the property's function list")
        # hint anchors lost
        lost = set(k.split(":", 1)[1] for k in rewrites if k.startswith("hint-anchor-lost:"))
        diag_by_fn = {}
        for d in vr.diags:
            if d["fn"] is not None:
                diag_by_fn.setdefault(id(d["fn"]), []).append(d)
        # errors outside any contracted function (lemmas, prelude) -> machinery problem -> undecided
        for d in vr.diags:
            if d["fn"] is None:
                undecided.append("proof obligation of the framework itself failed (lemma/spec, gen line %d): %s" % (d["gen_line"], d["msg"]))
        for d in vr.compile_errors:
            if d["kind"] == "limit":
                undecided.append("solver limit: %s (gen line %d)" % (d["msg"], d["gen_line"]))
            elif vr.status != "undecided":
                undecided.append("verus rejected a construct: %s (gen line %d)" % (d["msg"], d["gen_line"]))
        for r in recs:
            if r.get("sig_only"):
                continue
            if r.get("extract_error"):
                unverifiable.append({"obligation": "unverifiable :: %s|%s|%s :: %s" % (r["file"], r["container"], r["name"], r["extract_error"][:120]),
                                     "fn": "%s|%s|%s" % (r["file"], r["container"], r["name"]),
                                     "msg": "the edited function is outside what the extractor/verifier accepts (%s): not verified" % r["extract_error"][:200],
                                     "clause": "", "origin": [r["file"], r["line"]], "rendered": r["extract_error"]})
                continue
            if r.get("discharged_by_twin"):
                # in-trait copy of a default method: its contract is discharged by the free twin (R16)
                continue
            name = fn_verus_name(r)
            succ = vr.fn_success.get(name)
            clauses = count_clauses(gen_lines, r)
            n_ob = len(clauses) + 1   # +1: body safety (callee preconditions, bounds, overflow, type invariants)
            obligations += n_ob
            fid = "%s|%s|%s" % (r["file"], r["container"], r["name"])
            # clauses that belong to another property's claim (listed per property) are not this property's obligations
            ign = pm.get("ignore_clauses", [])
            ds = [d for d in vr.diags if d["fn"] is r and not any(g.replace(" ", "") in d["clause"].replace(" ", "") for g in ign)]
            other = [d for d in vr.diags if d["fn"] is r and d not in ds]
            if r.get("twin_of"):
                fid = fid + "  [trait default body, verified generically over every implementor as free fn %s]" % r["free_name"]
            frec = {"fn": fid, "role": ("states the property" if match_fn(r, pm.get("own_verus_fns", [])) else "dependency: establishes the shape invariant / view the property quantifies over (inherited from %s)" % "/".join(inherits)),
                    "repo_line": r["line"], "mode": r["mode"], "verus_name": name,
                    "ensures_clauses": len(clauses), "time_us": vr.fn_time_us.get(name, 0),
                    "back_end": "verus/z3"}
            if r.get("assumed"):
                frec["result"] = "assumed (external_body: contract trusted, body not verified yet)"
                assumed_fns.append(fid)
                obligations -= n_ob
            elif ds:
                frec["result"] = "failed"
                failed_clauses = set()
                for d in ds:
                    kind = d["msg"]
                    ob = "%s :: %s :: %s" % (fid, kind, d["clause"])
                    if r["name"] in lost:
                        lost_fail.append({"obligation": ob, "fn": fid, "msg": kind, "clause": d["clause"],
                                          "origin": d["origin"], "rendered": d["rendered"]})
                        continue
                    violations.append({"obligation": ob, "fn": fid, "msg": kind, "clause": d["clause"],
                                       "origin": d["origin"], "rendered": d["rendered"]})
                    failed_clauses.add(d["clause"])
                discharged += max(0, n_ob - max(1, len(failed_clauses)))
            elif other:
                frec["result"] = "verified for this property's clauses (a clause owned by another property failed)"
                discharged += n_ob - 1
                obligations -= 1
            elif succ is None:
                frec["result"] = "not-reported"
                undecided.append("verus did not report on %s (%s)" % (fid, name))
            elif not all(succ):
                frec["result"] = "failed-unlocated"
                undecided.append("verus reports failure in %s without a located diagnostic" % fid)
            else:
                frec["result"] = "verified"
                discharged += n_ob
                if len(samples) < 6 and clauses:
                    samples.append({"obligation": "%s ensures %s" % (fid, clauses[0]), "result": "discharged by verus/z3"})
            functions.append(frec)
        # lemmas (framework proof fns): must all verify
        for name, succ in vr.fn_success.items():
            if "::lemmas_" in name or "::witness" in name:
                lemma_count += 1
                if all(succ):
                    lemma_ok += 1
        if lemma_count != lemma_ok and not any("framework itself" in u for u in undecided):
            undecided.append("a framework lemma failed")
        obligations += lemma_count
        discharged += lemma_ok

    # ---- syntactic side conditions for code behind macros (C18)
    syn_problems = []
    syn_kinds = pm.get("syntactic") or []
    if isinstance(syn_kinds, str):
        syn_kinds = [syn_kinds]
    if "serde" in syn_kinds:
        import serde_syntax
        try:
            syn_problems = serde_syntax.check(repo_src)
        except Exception as e:
            undecided.append("serde syntactic check could not run: %s" % e)
        for sp in syn_problems:
            lost_fail.append({"obligation": "syntactic :: serde :: %s" % sp[:80], "fn": "serde derive / view serialisers", "msg": "assumed serialised form no longer justified",
                              "clause": sp, "origin": None, "rendered": sp})

    if "sort" in syn_kinds:
        import sort_syntax
        try:
            for sp in sort_syntax.check(repo_src):
                if pm.get("syntactic_filter") and not re.search(pm["syntactic_filter"], sp):
                    continue
                lost_fail.append({"obligation": "syntactic :: sort :: %s" % sp[:80], "fn": "SortOps key / Ord wrappers", "msg": "wrapper no longer delegates to the base variant of its axis and stability",
                                  "clause": sp, "origin": None, "rendered": sp})
        except Exception as e:
            undecided.append("sort syntactic check could not run: %s" % e)

    if "derive" in syn_kinds:
        import derive_syntax
        try:
            for sp in derive_syntax.check(repo_src):
                lost_fail.append({"obligation": "syntactic :: derive :: %s" % sp[:80], "fn": "derive(Clone, Hash, Eq, PartialEq) on TooDee / views", "msg": "equality / hash / clone no longer the derived field-wise ones",
                                  "clause": sp, "origin": None, "rendered": sp})
        except Exception as e:
            undecided.append("derive syntactic check could not run: %s" % e)

    if "flatten" in syn_kinds:
        import flatten_syntax
        try:
            for sp in flatten_syntax.check(repo_src):
                lost_fail.append({"obligation": "syntactic :: flatten :: %s" % sp[:80], "fn": "FlattenExact struct / aliases", "msg": "R8 instantiation no longer matches the generic struct",
                                  "clause": sp, "origin": None, "rendered": sp})
        except Exception as e:
            undecided.append("flatten syntactic check could not run: %s" % e)

    # ---- trusted (unverified) code this property leans on must still be the reviewed text
    try:
        import trusted_text
        for key, why, what in trusted_text.check(repo_src, [pid] + list(inherits)):
            unverifiable.append({"obligation": "trusted-text :: %s :: %s" % (key, what), "fn": key,
                                 "msg": "trusted code changed (%s): %s; its assumed contract is no longer backed by the reviewed text" % (why, what),
                                 "clause": "", "origin": None, "rendered": "%s: %s (%s)" % (key, what, why)})
        rec_files = set(r["file"] for r in recs) if vr.status not in ("undecided", "skipped") else set()
        rec_conts = set((r["file"], re.sub(r"\s+", " ", r["container"]).strip()) for r in recs) if rec_files else set()
        core = re.compile(r"\b(TooDee\w*|Rows(Mut)?|Col(Mut)?|FlattenExact|DrainCol)\b")
        for f_, c_, n_ in trusted_text.new_functions(repo_src):
            same_cont = (f_, c_) in rec_conts
            known_cont = any(k.startswith("%s|%s|" % (f_, c_)) for k in json.load(open(trusted_text.STORE)).get("inventory", []))
            relevant = same_cont or (f_ in rec_files and c_ == "-") or (not known_cont and c_ != "-" and core.search(c_) and f_ in rec_files | {"toodee.rs", "view.rs", "iter.rs"})
            if relevant:
                unverifiable.append({"obligation": "new-function :: %s|%s|%s" % (f_, c_, n_), "fn": "%s|%s|%s" % (f_, c_, n_),
                                     "msg": "function `%s` in `%s` (%s) is new code that no contract covers (it may override a provided method or replace a derive)" % (n_, c_, f_),
                                     "clause": "", "origin": [f_, 0], "rendered": "new function %s|%s|%s" % (f_, c_, n_)})
    except Exception as e:
        undecided.append("trusted-text guard could not run: %s" % e)

    # ---- bounded Kani stand-ins
    kani_info = None
    fams = pm.get("kani", {}).get(tier, pm.get("kani", {}).get("quick", [])) if pm.get("kani") else []
    if fams and not args.no_kani:
        import kx
        kani_info = kx.run_families(REPO, fams, tier, tag)
        for f in kani_info["failed"]:
            violations.append({"obligation": "kani :: %s :: %s" % (f["harness"], f["check"]), "fn": f["harness"],
                               "msg": "bounded check failed", "clause": f["check"], "origin": None,
                               "rendered": f["detail"], "kani": True})
        for u in kani_info["undecided"]:
            undecided.append("kani: %s" % u)

    # ---- known findings
    out_lines = []
    real = []
    known_hits = []
    for v in violations:
        hit = None
        for k in known:
            if k.get("property") == pid and k.get("obligation") and k["obligation"] in v["obligation"].replace(" ", ""):
                hit = k
                break
        if hit:
            known_hits.append(v["obligation"])
            txt = re.sub(r"^property=\S+\s*", "", hit["text"][len("known:"):].strip())
            out_lines.append("KNOWN-FINDING: property=%s %s" % (pid, txt))
        else:
            real.append(v)

    # ---- concrete-input search (once per run): replay for violations, tie-breaker for lost anchors
    os.makedirs(REPLAY_DIR, exist_ok=True)
    viol_lines = []
    found = None
    proactive = (tier == "thorough")
    if real or lost_fail or unverifiable or proactive:
        import replay_search
        try:
            found = replay_search.search(REPO, pid)
        except Exception as e:  # the search is best-effort
            found = {"found": False, "error": str(e)}
    if proactive and not (real or lost_fail or unverifiable) and found and found.get("found") and found.get("confirmed"):
        # thorough tier only: the bounded differential search of the replay crate is also run when no
        # obligation failed.  It proves nothing (never counted as discharged), but a failing input that
        # is confirmed on the real code is a violation whatever found it.
        sc = found.get("scenario") or {}
        real.append({"obligation": "bounded-search :: %s :: %s" % (found.get("family"), str(sc.get("variant"))[:120]),
                     "fn": "replay family %s" % found.get("family"),
                     "msg": "no contract obligation failed, but the supplementary bounded search (thorough tier) found an input on which the real code disagrees with the reference model",
                     "clause": "expected %s, got %s" % (str(sc.get("expected"))[:200], str(sc.get("got"))[:200]), "origin": None,
                     "rendered": json.dumps(sc)[:3000]})
    if lost_fail:
        if found and found.get("found") and found.get("confirmed"):
            # the failure is not proof brittleness: a concrete input fails on the real code
            real += lost_fail
        else:
            for v in lost_fail:
                undecided.append("obligation failed in %s but a proof-hint anchor was lost in that function (the edit changed the anchored statement) and no failing input was found within the replay bounds; cannot separate proof brittleness from a defect: %s" % (v["fn"], v["msg"]))
    if unverifiable:
        if found and found.get("found") and found.get("confirmed"):
            # not verifiable AND a concrete input of this property's families fails on the real code
            real += unverifiable
        else:
            for v in unverifiable:
                undecided.append("%s: %s; no failing input was found within the replay bounds" % (v["fn"], v["msg"]))
    for v in real:
        h = hashlib.sha256(v["obligation"].encode()).hexdigest()[:10]
        path = os.path.join(REPLAY_DIR, "%s-%s.json" % (pid, h))
        doc = {"property": pid, "obligation": v["obligation"], "function": v["fn"],
               "verifier_message": v["msg"], "failed_clause": v["clause"],
               "repo_location": v["origin"], "verifier_output": v["rendered"],
               "concrete_input": found, "repo": REPO, "src_hash": repo_src_hash(repo_src)}
        json.dump(doc, open(path, "w"), indent=1)
        suffix = "" if (found and found.get("found") and found.get("confirmed")) else " no-failing-input-found"
        viol_lines.append("VIOLATION property=%s replay=%s%s" % (pid, path, suffix))

    # ---- evidence
    wall = time.time() - t0
    level = pm.get("level", "proof")
    trusted = propmap.get("trusted_base_common", []) + pm.get("trusted_base", [])
    # obligations listed as known findings are reported separately and are not part of the claim
    obligations -= len(set(known_hits))
    cov = {
        "known_findings_hit": sorted(set(known_hits)),
        "obligations": obligations,
        "discharged": discharged,
        "checker_cmd": vr.cmd or "verus (not run: %s)" % vr.undecided_reason,
        "trusted_base": trusted,
        "samples": samples or [{"note": "no obligation discharged in this run"}],
        "rule": "one obligation per ensures clause of each contracted real function + one 'body safety' obligation per function "
                "(callee preconditions incl. get_unchecked bounds, arithmetic overflow, type invariants, termination) + one per framework lemma; "
                "a function's obligations count as discharged only if Verus verified the function from its current /repo body",
        "functions_under_contract": functions,
        "framework_lemmas": {"total": lemma_count, "verified": lemma_ok},
        "verus": {"verified_items": vr.total_verified, "errors": vr.total_errors, "smt_ms": vr.smt_ms, "wall_s": round(vr.wall_s, 2),
                  "retries": getattr(vr, "retries", {})},
        "extraction": {"rewrites": rewrites, "template": "contracts/toodee.vt", "repo_src_hash": repo_src_hash(repo_src)},
        "bounded": kani_info,
        "bounded_search": ({"tool": "replay crate (/verif/replay): bounded differential search against an independent reference model; supplementary, proves nothing, never counted as discharged",
                            "when": "thorough tier: always; quick tier: only to find a concrete input for a failed obligation or to break the tie for an unverifiable / drifted function",
                            "families_tried": [(t.get("profile"), t.get("family"), t.get("status"), t.get("summary")) for t in (found or {}).get("tried", [])],
                            "found": bool(found and found.get("found"))} if found is not None else None),
        "assumed_contracts": assumed_fns,
        "exhaustive": False,
        "undecided": undecided,
    }
    if kani_info:
        hs = kani_info.get("harnesses", [])
        cov["evaluations"] = len(hs)
        cov["distinct_nontrivial"] = len(set((h["family"], h["harness"]) for h in hs if h.get("checks", 0) > 0 and h.get("status")))
        cov["rule"] += " | bounded part: one evaluation per Kani harness (a concrete shape of one operation family with symbolic indices/cells); non-trivial = CBMC evaluated at least one property check and reached a verdict"
        if level != "proof" or not samples:
            cov["samples"] = (samples or []) + [{"kani_harness": h["harness"], "family": h["family"], "status": h["status"], "cbmc_checks": h["checks"], "time_s": h["time_s"]} for h in hs[:8]]
        if level == "model_checking":
            cov["obligations"] = obligations + len(hs)
            cov["discharged"] = discharged + len([h for h in hs if h.get("status") == "SUCCESSFUL" or h.get("should_panic")])
    ev = {
        "property_id": pid, "tier": tier, "seed": seed, "level": level,
        "coverage": cov,
        "assumptions": pm.get("assumptions", []) + propmap.get("assumptions_common", []),
        "wall_s": round(wall, 2),
        "violations": len(real),
    }
    os.makedirs(EVID_DIR, exist_ok=True)
    json.dump(ev, open(os.path.join(EVID_DIR, "%s.json" % pid), "w"), indent=1)
    # clean the per-run generated dir (keep last for debugging under .gen/last_<pid>)
    try:
        last = os.path.join(GEN_DIR, "last_%s" % pid)
        shutil.rmtree(last, ignore_errors=True)
        if vr.gen_path:
            shutil.move(os.path.dirname(vr.gen_path), last)
    except Exception:
        pass

    for ln in out_lines:
        print(ln)
    kn = ""
    if kani_info:
        hs = kani_info.get("harnesses", [])
        kn = ", kani %d/%d harnesses ok (bounded)" % (len([h for h in hs if h.get("status") == "SUCCESSFUL" or h.get("should_panic")]) - len(kani_info.get("failed", [])) if False else len([h for h in hs if h.get("status")]) - len(set(f["harness"] for f in kani_info.get("failed", []))), len(hs))
    print("property %s tier %s: %d/%d obligations discharged, %d functions under contract, verus %.1fs%s, wall %.1fs" %
          (pid, tier, discharged, obligations, len(functions), vr.wall_s, kn, wall))
    if viol_lines:
        for ln in viol_lines:
            print(ln)
        sys.exit(1)
    if undecided:
        for u in undecided[:10]:
            print("UNDECIDED %s: %s" % (pid, u))
        sys.exit(2)
    sys.exit(0)


if __name__ == "__main__":
    main()
