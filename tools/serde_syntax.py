"""Syntactic side conditions of C18 for the code that lives behind serde's derive macro.

derive(Serialize) cannot be put under a contract (code behind a macro).  What the proof of
visit_map's completeness clause ASSUMES about the serialised form is checked syntactically here:
  * struct TooDee has exactly the fields data / num_rows / num_cols, derives Serialize (under the
    serde feature) and carries no other serde attribute on the container or on a field;
  * the two hand-written view serialisers emit a 3-field struct with those names, the dimensions
    from num_cols()/num_rows() and the data from cells() collected in order;
  * the visitor's key literals are exactly those three names.
A deviation is not by itself a violation (it removes the justification of an assumption): the
caller confirms it with the replay tool.
"""
import os
import re
import sys

sys.path.insert(0, os.path.dirname(os.path.abspath(__file__)))
from rustscan import SourceFile, norm_tokens  # noqa: E402


def squeeze(toks):
    return "".join(t.text for t in toks)


def check(repo_src):
    problems = []
    td = SourceFile("toodee.rs", open(os.path.join(repo_src, "toodee.rs")).read())
    st = [it for it in td.items if it.kind == "struct" and it.name == "TooDee"]
    if len(st) != 1:
        return ["struct TooDee not found"]
    st = st[0]
    attrs = [a.replace(" ", "") for a in st.attrs]
    derive = '#[cfg_attr(feature="serde",derive(serde::Serialize))]'
    if derive not in attrs:
        problems.append("struct TooDee no longer derives serde::Serialize under the serde feature: %s" % attrs)
    other = [a for a in attrs if "serde" in a and a != derive]
    if other:
        problems.append("struct TooDee carries extra serde container attributes: %s" % other)
    btxt = squeeze(td.ct[st.body_open + 1:st.body_close])
    if "serde" in btxt:
        problems.append("a field of struct TooDee carries a serde attribute: %s" % btxt)
    fields = re.findall(r"(\w+):", re.sub(r"#\[.*?\]", "", btxt).replace("::", ""))
    if sorted(fields) != ["data", "num_cols", "num_rows"]:
        problems.append("struct TooDee fields are %s, expected data/num_cols/num_rows" % fields)
    sd = SourceFile("serde.rs", open(os.path.join(repo_src, "serde.rs")).read())
    for ty in ("TooDeeView", "TooDeeViewMut"):
        impls = [it for it in sd.items if it.kind == "impl" and squeeze(it.header) == "implSerializefor%s<'_,u32>" % ty]
        if len(impls) != 1:
            problems.append("Serialize impl for %s not found" % ty)
            continue
        it = impls[0]
        b = squeeze(sd.ct[it.body_open + 1:it.body_close])
        want = ['serializer.serialize_struct("TooDee",3)',
                'serialize_field("num_cols",&self.num_cols())',
                'serialize_field("num_rows",&self.num_rows())',
                'serialize_field("data",&self.cells().collect::<Vec<_>>())',
                'storage.end()']
        for w in want:
            if b.count(w) != 1:
                problems.append("Serialize for %s: expected exactly one `%s`" % (ty, w))
        if b.count("serialize_field") != 3:
            problems.append("Serialize for %s emits %d fields, expected 3" % (ty, b.count("serialize_field")))
    lits = set(re.findall(r'"(\w+)"=>', squeeze(sd.ct)))
    if lits != {"num_cols", "num_rows", "data"}:
        problems.append("visitor key literals are %s" % sorted(lits))
    return problems


if __name__ == "__main__":
    print(check(os.path.join(os.environ.get("VERIF_REPO", "/repo"), "src")))
