#!/bin/sh
# try_seed.sh <worktree> <patch> <property...> : apply patch in scratch worktree, run checks, revert
W=$1; P=$2; shift 2
git -C $W checkout -q -- src && git -C $W apply $P || { echo "patch failed"; exit 3; }
for p in "$@"; do VERIF_REPO=$W /verif/check $p quick 2>&1 | grep -E 'VIOLATION|UNDECIDED|KNOWN|obligations' | cut -c1-260; echo "  -> $p exit=$?"; done
git -C $W checkout -q -- src
