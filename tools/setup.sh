#!/bin/sh
# Offline setup: nothing to download; warm the Verus cache and build the replay binary if present.
cd "$(dirname "$0")/.."
mkdir -p .gen evidence replays
python3 tools/vx.py contracts/toodee.vt "${VERIF_REPO:-/repo}/src" .gen/setup/toodee_v.rs || exit 0
exit 0
