#!/usr/bin/env python3
"""Run every confirmed seeded change against the check(s) of its property and record the outcome
in seeded/<id>-<n>/meta.json and seeded/MATRIX.md.  Uses the scratch worktrees /tmp/mw/<id>."""
import json, os, subprocess, sys, re
V = os.path.dirname(os.path.dirname(os.path.abspath(__file__)))
claimed = [c["property_id"] for c in json.load(open(os.path.join(V, "MANIFEST.json")))["checks"]]
rows = []
only = sys.argv[1:]
for d in sorted(os.listdir(os.path.join(V, "seeded"))):
    m = re.match(r"(C\d\d)-(\d)$", d)
    if not m: continue
    pid, n = m.group(1), m.group(2)
    if only and pid not in only: continue
    sd = os.path.join(V, "seeded", d)
    am = json.load(open(os.path.join(sd, "agent_meta.json")))
    W = "/tmp/mw/%s" % pid
    props = [pid] if pid in claimed else []
    # a change is also run against the other claimed properties its functions belong to
    extra = {"C16": ["C04"], "C17": ["C04", "C13"]}.get(pid, [])
    results = {}
    subprocess.run(["git", "-C", W, "checkout", "-q", "--", "src"])
    r = subprocess.run(["git", "-C", W, "apply", os.path.join(sd, "patch.diff")])
    if r.returncode != 0:
        results["apply"] = "failed"
    else:
        for p in props + extra:
            env = dict(os.environ, VERIF_REPO=W)
            out = subprocess.run([os.path.join(V, "check"), p, "quick"], env=env, stdout=subprocess.PIPE, stderr=subprocess.STDOUT, universal_newlines=True).stdout
            if "VIOLATION" in out:
                v = [l for l in out.split("\n") if l.startswith("VIOLATION")]
                confirmed = any("no-failing-input-found" not in l for l in v)
                results[p] = "VIOLATION (%d obligations%s)" % (len(v), ", concrete input replayed" if confirmed else ", no-failing-input-found")
            elif "UNDECIDED" in out:
                results[p] = "UNDECIDED"
            else:
                results[p] = "not detected"
    subprocess.run(["git", "-C", W, "checkout", "-q", "--", "src"])
    meta = {"property": pid, "summary": am.get("summary"), "needs": am.get("needs"), "functions_touched": am.get("functions_touched"),
            "confirmed": open(os.path.join(sd, "confirm.log")).read().strip().split("\n")[-1],
            "what_was_run": "git apply patch.diff in a scratch worktree of /repo HEAD; existing suite; demo with/without the change (confirm.log); then `VERIF_REPO=<worktree> ./check <property> quick`",
            "check_results": results}
    json.dump(meta, open(os.path.join(sd, "meta.json"), "w"), indent=1)
    rows.append((d, am.get("summary", "")[:100], results))
    print(d, results, flush=True)
with open(os.path.join(V, "seeded", "MATRIX.md"), "a" if only else "w") as f:
    if not only:
        f.write("# Seeded changes vs checks (quick tier)\n\n| seed | change | result |\n|---|---|---|\n")
    for d, s, r in rows:
        f.write("| %s | %s | %s |\n" % (d, s.replace("|", "/"), "; ".join("%s: %s" % kv for kv in r.items()) or "property not claimed"))
