"""Side conditions of the R8 instantiation of FlattenExact (C10), checked syntactically:
the struct still has exactly the fields iter / frontiter / backiter with the generic types the
instantiation substitutes, it is constructed at exactly one site (`new`), and `Cells` / `CellsMut`
are still the aliases FlattenExact<Rows> / FlattenExact<RowsMut>."""
import os, re, sys
sys.path.insert(0, os.path.dirname(os.path.abspath(__file__)))
from rustscan import SourceFile  # noqa: E402


def sq(toks):
    return "".join(t.text for t in toks)


def check(repo_src):
    problems = []
    sf = SourceFile("flattenexact.rs", open(os.path.join(repo_src, "flattenexact.rs")).read())
    st = [it for it in sf.items if it.kind == "struct" and it.name == "FlattenExact"]
    if len(st) != 1:
        return ["struct FlattenExact not found"]
    body = sq(sf.ct[st[0].body_open + 1:st[0].body_close])
    want = "iter:I,frontiter:Option<<I::ItemasIntoIterator>::IntoIter>,backiter:Option<<I::ItemasIntoIterator>::IntoIter>,"
    if body != want:
        problems.append("struct FlattenExact fields changed: %s" % body)
    whole = sq(sf.ct)
    if whole.count("FlattenExact{") != 1:
        problems.append("FlattenExact is constructed at %d sites (expected exactly one, in new)" % whole.count("FlattenExact{"))
    ops = sq(SourceFile("ops.rs", open(os.path.join(repo_src, "ops.rs")).read()).ct)
    if "pubtypeCells<'a,T>=FlattenExact<Rows<'a,T>>;" not in ops:
        problems.append("type Cells is no longer FlattenExact<Rows>")
    if "pubtypeCellsMut<'a,T>=FlattenExact<RowsMut<'a,T>>;" not in ops:
        problems.append("type CellsMut is no longer FlattenExact<RowsMut>")
    return problems


if __name__ == "__main__":
    print(check(os.path.join(os.environ.get("VERIF_REPO", "/repo"), "src")))
