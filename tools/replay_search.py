"""Best-effort search for a concrete failing input on the real crate (filled in later)."""
def search(repo, pid, violation):
    return {"found": False, "reason": "no search family for this obligation"}
