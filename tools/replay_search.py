"""Search for a concrete failing input on the real crate and replay it.

Builds /verif/replay (a bounded differential tester with an independent rows-of-cells model)
against the repository under test and runs the families that belong to the property.  This is NOT
the deciding step (Verus/Kani are); it turns a failed obligation into a replayable input when one
exists within the tool's bounds, and it is the tie-breaker when a proof failed only because a
proof-hint anchor was lost.
"""
import hashlib
import json
import os
import re
import shutil
import subprocess

HERE = os.path.dirname(os.path.abspath(__file__))
VERIF = os.path.dirname(HERE)
SRC = os.path.join(VERIF, "replay")
CACHE = os.path.join(VERIF, ".cache")

FAMILIES = {
    "C01": ["ctor", "insrem", "panicsafe", "sort"], "C02": ["access"], "C03": ["views"],
    "C04": ["views", "access", "swapfill", "copy", "translate", "sort"],
    "C05": ["insrem"], "C06": ["insrem"], "C07": ["insrem"],
    "C08": ["rows", "views"], "C09": ["cols", "views"], "C10": ["cells", "views"], "C11": ["panicsafe"], "C12": ["leak"],
    "C13": ["swapfill"], "C14": ["copy"], "C15": ["translate"], "C16": ["sort"], "C17": ["sort"],
    "C18": ["serde", "ctor"], "C19": ["deser"], "C20": ["ctor"],
}


def build(repo, profile):
    key = hashlib.sha256(os.path.abspath(repo).encode()).hexdigest()[:10]
    work = os.path.join(CACHE, "replay-%s" % key)
    os.makedirs(work, exist_ok=True)
    # mirror the crate (sources only) and point it at the repository under test
    for f in ("Cargo.toml", "Cargo.lock"):
        shutil.copy(os.path.join(SRC, f), os.path.join(work, f))
    dst = os.path.join(work, "src")
    shutil.rmtree(dst, ignore_errors=True)
    shutil.copytree(os.path.join(SRC, "src"), dst)
    ct = open(os.path.join(work, "Cargo.toml")).read()
    ct = ct.replace('path = "/repo"', 'path = "%s"' % os.path.abspath(repo))
    open(os.path.join(work, "Cargo.toml"), "w").write(ct)
    env = dict(os.environ)
    env["CARGO_NET_OFFLINE"] = "true"
    env["CARGO_TARGET_DIR"] = os.path.join(CACHE, "replay-target")
    cmd = ["cargo", "build", "--offline", "-q"] + (["--release"] if profile == "release" else [])
    p = subprocess.run(cmd, cwd=work, env=env, stdout=subprocess.PIPE, stderr=subprocess.STDOUT, universal_newlines=True, timeout=900)
    if p.returncode != 0:
        raise RuntimeError("replay crate does not build against %s: %s" % (repo, p.stdout[-600:]))
    exe = os.path.join(CACHE, "replay-target", "release" if profile == "release" else "debug", "replay")
    # the shared target dir is rebuilt for whichever repo was built last, so copy the binary out
    out = os.path.join(work, "replay-%s" % profile)
    shutil.copy(exe, out)
    return out


def run_family(exe, fam, max_cases=None, timeout=150):
    cmd = [exe, "search", fam] + (["--max-cases", str(max_cases)] if max_cases else [])
    try:
        p = subprocess.run(cmd, stdout=subprocess.PIPE, stderr=subprocess.PIPE, universal_newlines=True, timeout=timeout)
    except subprocess.TimeoutExpired:
        return {"family": fam, "status": "timeout"}
    for ln in p.stdout.split("\n"):
        if ln.startswith("FAIL "):
            return {"family": fam, "status": "fail", "case": ln[5:]}
        if ln.startswith("OK "):
            return {"family": fam, "status": "ok", "summary": ln}
    return {"family": fam, "status": "error", "out": (p.stdout + p.stderr)[-400:]}


def find_hang(exe, fam, timeout=60):
    """A family that does not finish (each takes well under a minute on the unchanged tree): re-run it
    writing every case to a trace file before it starts; the file then names the case that hangs."""
    import tempfile
    fd, path = tempfile.mkstemp(prefix="replay-trace-")
    os.close(fd)
    env = dict(os.environ, REPLAY_TRACE=path)
    try:
        subprocess.run([exe, "search", fam], stdout=subprocess.PIPE, stderr=subprocess.PIPE, env=env, timeout=timeout)
        return None      # it finished this time: no hang
    except subprocess.TimeoutExpired:
        pass
    try:
        doc = json.loads(open(path).read())
    except Exception:
        return None
    finally:
        try:
            os.unlink(path)
        except OSError:
            pass
    # confirm: the single case alone must not finish either
    case_json = json.dumps({"family": doc["family"], "case": doc["case"]})
    try:
        subprocess.run([exe, "run", case_json], stdout=subprocess.PIPE, stderr=subprocess.PIPE, timeout=45)
        return None
    except subprocess.TimeoutExpired:
        return {"family": doc["family"], "case": doc["case"], "expected": "the call sequence terminates (the whole family runs in seconds on the unchanged tree)",
                "got": "no termination within 45 s", "variant": "hang"}


def confirm(exe, case_json):
    p = subprocess.run([exe, "run", case_json], stdout=subprocess.PIPE, stderr=subprocess.PIPE, universal_newlines=True, timeout=120)
    return "REPLAY-CONFIRMED" in p.stdout, p.stdout.strip()[:2000]


def families_for(pid):
    """own families first; then the families that exercise what the property inherits: the operations
    that establish the shape invariant (C01: constructors, insert/remove, caught panics) and the
    view constructors (C03)"""
    fams = list(FAMILIES.get(pid, []))
    try:
        pm = json.load(open(os.path.join(VERIF, "contracts", "properties.json")))["properties"].get(pid, {})
    except Exception:
        pm = {}
    extra = []
    for q in pm.get("inherits", []):
        extra += {"C01": ["ctor", "insrem", "panicsafe", "leak"], "C03": ["views", "ctor"]}.get(q, FAMILIES.get(q, []))
    for f in extra:
        if f not in fams:
            fams.append(f)
    return fams


def search(repo, pid, violation=None):
    fams = families_for(pid)
    tried = []
    for profile in ("release", "debug"):
        try:
            exe = build(repo, profile)
        except Exception as e:  # noqa
            return {"found": False, "error": str(e), "tried": tried}
        for fam in fams:
            r = run_family(exe, fam)
            tried.append({"profile": profile, "family": fam, "status": r["status"], "summary": r.get("summary")})
            if r["status"] == "timeout":
                h = find_hang(exe, fam)
                if h:
                    return {"found": True, "confirmed": True, "profile": profile, "family": fam, "scenario": h,
                            "replay_transcript": "REPLAY-CONFIRMED (hang) %s" % json.dumps(h),
                            "replay_cmd": "timeout 45 %s run '<scenario json>'  (crate built from %s, profile %s)" % (exe, repo, profile),
                            "tried": tried}
            if r["status"] == "fail":
                ok, transcript = confirm(exe, r["case"])
                return {"found": True, "confirmed": ok, "profile": profile, "family": fam,
                        "scenario": json.loads(r["case"]) if r["case"].startswith("{") else r["case"],
                        "replay_transcript": transcript,
                        "replay_cmd": "%s run '<scenario json>'  (crate built from %s, profile %s)" % (exe, repo, profile),
                        "tried": tried}
    return {"found": False, "tried": tried, "reason": "no failing input within the bounded families %s" % fams}


if __name__ == "__main__":
    import sys
    print(json.dumps(search(os.environ.get("VERIF_REPO", "/repo"), sys.argv[1]), indent=1))
