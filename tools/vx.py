#!/usr/bin/env python3
"""vx: extract the real functions of /repo into one Verus file.

Input : a template (.vt) = Verus text (spec fns, lemmas, impl headers) with
        `//@` directives naming functions/structs of /repo/src.
Output: generated Rust text in which every function named by a directive has
        the signature and body that stand in /repo right now, plus the
        contract / hints from the template, plus a line map back to /repo.

Nothing in here decides anything; it only assembles text.  The rewrite rules
(R0..R10 of DESIGN.md section 3.1) are applied here and counted.
"""
import os
import re
import sys
import json
import hashlib

sys.path.insert(0, os.path.dirname(os.path.abspath(__file__)))
from rustscan import SourceFile, lex, code_toks, norm_tokens, norm_text, match_close, Tok  # noqa: E402


class ExtractError(Exception):
    """Lost anchor / signature drift / template error -> UNDECIDED, never an alarm."""


def strip_where(header_norm):
    i = header_norm.find(" where ")
    return header_norm if i < 0 else header_norm[:i]


class Repo:
    def __init__(self, src_dir):
        self.src_dir = src_dir
        self.files = {}

    def file(self, name):
        if name not in self.files:
            p = os.path.join(self.src_dir, name)
            if not os.path.exists(p):
                raise ExtractError("missing source file %s" % p)
            self.files[name] = SourceFile(p, open(p).read())
        return self.files[name]

    def find_fn(self, fname, container, name, which=None):
        sf = self.file(fname)
        if container in ("-", ""):
            c = [it for it in sf.items if it.kind == "fn" and it.name == name]
        else:
            want = norm_text(container)
            conts = []

            def walk(items):
                for it in items:
                    if it.kind in ("impl", "trait", "mod"):
                        h = it.header_text()
                        if h == want or strip_where(h) == want:
                            conts.append(it)
                        walk(it.children)
            walk(sf.items)
            if not conts:
                raise ExtractError("lost anchor: container `%s` not found in %s" % (container, fname))
            c = []
            for ct in conts:
                c += [it for it in ct.children if it.kind == "fn" and it.name == name]
        if not c:
            raise ExtractError("lost anchor: fn `%s` not found in %s | %s" % (name, fname, container))
        if len(c) > 1:
            raise ExtractError("ambiguous anchor: fn `%s` in %s | %s (%d matches)" % (name, fname, container, len(c)))
        return sf, c[0]

    def find_struct(self, fname, name):
        sf = self.file(fname)
        c = [it for it in sf.items if it.kind == "struct" and it.name == name]
        if len(c) != 1:
            raise ExtractError("lost anchor: struct `%s` in %s" % (name, fname))
        return sf, c[0]


# ---------------------------------------------------------------------------
# token helpers on full token lists (ws/comments kept)

def is_code(t):
    return t.kind not in ("ws", "comment", "doc")


def next_code(toks, i):
    i += 1
    while i < len(toks) and not is_code(toks[i]):
        i += 1
    return i


def prev_code(toks, i):
    i -= 1
    while i >= 0 and not is_code(toks[i]):
        i -= 1
    return i


def match_close_full(toks, i):
    depth = 0
    for j in range(i, len(toks)):
        t = toks[j]
        if t.kind == "punct":
            if t.text in "([{":
                depth += 1
            elif t.text in ")]}":
                depth -= 1
                if depth == 0:
                    return j
    raise ExtractError("unbalanced bracket near line %d" % toks[i].line)


def split_args(toks):
    """Split a token list at top-level commas; returns list of token lists."""
    out, cur, depth = [], [], 0
    for t in toks:
        if t.kind == "punct":
            if t.text in "([{":
                depth += 1
            elif t.text in ")]}":
                depth -= 1
            elif t.text == "," and depth == 0:
                out.append(cur)
                cur = []
                continue
        cur.append(t)
    if any(is_code(t) for t in cur):
        out.append(cur)
    return out


def text_of(toks):
    return "".join(t.text for t in toks)


def synth(text, line):
    return Tok("synth", text, -1, -1, line)


def find_seq(toks, pat_code_texts, start=0):
    """Find occurrences of a code-token text sequence; yields (i_first, i_last) indices in toks."""
    n = len(pat_code_texts)
    idx = [i for i, t in enumerate(toks) if is_code(t)]
    for a in range(len(idx) - n + 1):
        if idx[a] < start:
            continue
        ok = True
        for k in range(n):
            if toks[idx[a + k]].text != pat_code_texts[k]:
                ok = False
                break
        if ok:
            yield idx[a], idx[a + n - 1]


def code_texts(s):
    return [t.text for t in code_toks(lex(s))]


# ---------------------------------------------------------------------------

class FnSpec:
    def __init__(self, file, container, name, opts, lineno):
        self.file = file
        self.container = container
        self.name = name
        self.opts = opts
        self.lineno = lineno
        self.contract = []
        self.twinreq = []
        self.entry = []
        self.valid = None
        self.panic_state = None
        self.loops = {}      # k -> (flags dict, [lines])
        self.before = []     # (k, pattern, [lines])
        self.after = []
        self.replace = []    # (k, pattern, [lines])
        self.unsafe_stub = {}  # k -> [lines]
        self.tail = []
        self.subst = []      # (from_text, to_text): R8 type-parameter instantiation
        self.calls = []
        self.sig_only = False


class Generator:
    def __init__(self, repo_src):
        self.repo = Repo(repo_src)
        self.out = []          # list of (text_line, origin) origin=(file,line)|None
        self.rewrites = {}
        self.fns = []          # records of functions under contract
        self.structs = []
        self.cur_mod = []
        self.pending_free = []

    def count(self, rule, n=1):
        self.rewrites[rule] = self.rewrites.get(rule, 0) + n

    def emit(self, text, origin=None):
        for ln in text.split("\n"):
            self.out.append((ln, origin))

    # ------------------------------------------------------------------
    def process_template(self, path, seen=None):
        seen = seen or set()
        if path in seen:
            raise ExtractError("recursive include %s" % path)
        seen.add(path)
        lines = open(path).read().split("\n")
        i = 0
        base = os.path.dirname(path)
        while i < len(lines):
            ln = lines[i]
            s = ln.strip()
            if s.startswith("//@include "):
                self.process_template(os.path.join(base, s.split(None, 1)[1].strip()), seen)
                i += 1
            elif s.startswith("//@struct "):
                parts = s.split()
                self.emit_struct(parts[1], parts[2], parts[3:])
                i += 1
            elif s.startswith("//@fn ") or s.startswith("//@sig "):
                spec, i = self.parse_fn_block(lines, i, path)
                self.emit_fn(spec)
            elif s == "//@emit-free":
                for flines, rec in self.pending_free:
                    rec["gen_line"] = len(self.out) + 1
                    for fl, org in flines:
                        self.out.append((fl, org))
                    rec["gen_end"] = len(self.out)
                    self.fns.append(rec)
                self.pending_free = []
                i += 1
            elif s.startswith("//@const "):
                parts = s.split()
                self.emit_const(parts[1], parts[2])
                i += 1
            elif s.startswith("//@#"):
                i += 1
            else:
                m = re.match(r"\s*(pub\s+)?mod\s+(\w+)\s*\{", ln)
                if m:
                    self.cur_mod.append(m.group(2))
                elif re.match(r"\s*\}\s*//\s*mod\s+(\w+)", ln):
                    if self.cur_mod:
                        self.cur_mod.pop()
                self.emit(ln)
                i += 1

    def parse_fn_block(self, lines, i, path):
        head = lines[i].strip()
        sig_only = head.startswith("//@sig ")
        parts = [p.strip() for p in head.split(None, 1)[1].split("|")]
        if len(parts) < 3:
            raise ExtractError("%s:%d: bad //@fn directive" % (path, i + 1))
        opts = {}
        for p in parts[3:]:
            for kv in p.split():
                if "=" in kv:
                    k, v = kv.split("=", 1)
                    opts[k] = v
                else:
                    opts[kv] = "1"
        spec = FnSpec(parts[0], parts[1], parts[2], opts, i + 1)
        spec.sig_only = sig_only
        cur = spec.contract
        i += 1
        while i < len(lines):
            s = lines[i].strip()
            if s == "//@end":
                return spec, i + 1
            if s.startswith("//@valid "):
                spec.valid = s[len("//@valid "):].strip()
                cur = None
            elif s == "//@np":
                # combined N/P mode: the function's own argument checks become rt_assert(e, Ghost(strict()))
                spec.valid = "strict()"
                cur = None
            elif s.startswith("//@panic_state "):
                spec.panic_state = s[len("//@panic_state "):].strip()
                if "old(self)" in spec.panic_state:
                    # `old(..)` is not accepted inside a Ghost(..) argument: snapshot the entry value instead
                    spec.panic_state = spec.panic_state.replace("old(self)", "__s0")
                    spec.entry.insert(0, "        let ghost __s0 = *self;")
                cur = None
            elif s.startswith("//@twinreq"):
                # preconditions stated on the free twin only (an impl of an external trait cannot carry
                # `requires`): the in-trait copy's ensures must be guarded by the same condition
                cur = spec.twinreq
            elif s.startswith("//@contract"):
                cur = spec.contract
            elif s.startswith("//@entry"):
                cur = spec.entry
            elif s.startswith("//@tail"):
                # R14: the body block's value is bound to `__ret` so a proof block can follow it
                cur = spec.tail
            elif s.startswith("//@loop "):
                ps = s.split()
                k = int(ps[1])
                flags = dict(kv.split("=", 1) for kv in ps[2:] if "=" in kv)
                cur = []
                spec.loops[k] = (flags, cur)
            elif s.startswith("//@before ") or s.startswith("//@after ") or s.startswith("//@replace "):
                m = re.match(r"//@(before|after|replace)\s+(\d+)\s+`(.*)`\s*$", s)
                if not m:
                    raise ExtractError("%s:%d: bad directive %s" % (path, i + 1, s))
                cur = []
                getattr(spec, m.group(1)).append((int(m.group(2)), m.group(3), cur))
            elif s.startswith("//@subst "):
                a, b = s[len("//@subst "):].split("=>", 1)
                spec.subst.append((a.strip(), b.strip()))
                cur = None
            elif s.startswith("//@call "):
                # //@call k fname : replace the k-th call `fname(args..)` (or `recv.fname(args..)`) by the
                # template in the section body; $1..$n are the ACTUAL argument texts, $0 the receiver
                ps = s.split()
                cur = []
                spec.calls.append((int(ps[1]), ps[2], cur))
            elif s.startswith("//@unsafe "):
                k = int(s.split()[1])
                cur = []
                spec.unsafe_stub[k] = cur
            elif s.startswith("//@#"):
                pass
            elif s.startswith("//@"):
                raise ExtractError("%s:%d: unknown directive %s" % (path, i + 1, s))
            else:
                if cur is None:
                    if s:
                        raise ExtractError("%s:%d: text outside a section" % (path, i + 1))
                else:
                    cur.append(lines[i])
            i += 1
        raise ExtractError("%s: unterminated //@fn block at line %d" % (path, spec.lineno))

    # ------------------------------------------------------------------
    def emit_struct(self, fname, name, flags):
        sf, it = self.repo.find_struct(fname, name)
        # R0: attributes and doc comments dropped; text otherwise verbatim
        a = sf.ct[it.h0].start
        b = sf.ct[it.end].end
        toks = [t for t in sf.toks if t.start >= a and t.end <= b and t.kind != "doc"]
        text = text_of(toks)
        # R0: modules are flattened into the crate root, so `pub(super)` (= crate-visible) becomes `pub(crate)`
        text, nvis = re.subn(r"pub\s*\(\s*super\s*\)", "pub(crate)", text)
        if nvis:
            self.count("R0-pub(super)", nvis)
        # drop field attributes (none in this crate, but be safe)
        self.count("R0-struct")
        self.structs.append({"name": name, "file": fname, "line": it.line,
                             "sha": hashlib.sha256(norm_text(text).encode()).hexdigest()[:12]})
        pre = ""
        for f in flags:
            if f == "ext_eq":
                pre += "#[verifier::ext_equal]\n"
            elif f == "external_body":
                pre += "#[verifier::external_body]\n#[verifier::reject_recursive_types(T)]\n"
            elif f == "reject_recursive":
                pre += "#[verifier::reject_recursive_types(T)]\n"
        line0 = it.line
        self.emit(pre + "", None) if pre else None
        for k, ln in enumerate(text.split("\n")):
            if ln.strip() == "":
                continue
            self.out.append((ln, (fname, line0 + k)))

    def emit_const(self, fname, name):
        sf = self.repo.file(fname)
        c = [it for it in sf.items if it.kind == "const" and it.name == name]
        if len(c) != 1:
            raise ExtractError("lost anchor: const %s in %s" % (name, fname))
        it = c[0]
        text = sf.text[sf.ct[it.h0].start:sf.ct[it.end].end]
        # R0: inside verus! a const needs its elided `'static` lifetimes spelled out
        m = re.match(r"(?s)(.*?:)(.*?)(=.*)", text)
        if m:
            ty, n = re.subn(r"&(?!\s*')", "&'static ", m.group(2))
            if n:
                self.count("R0-const-static-lifetime", n)
            text = m.group(1) + ty + m.group(3)
        self.emit("#[verifier::external_body]   // the constant's value is irrelevant to every contract")
        self.out.append((text, (fname, it.line)))

    # ------------------------------------------------------------------
    def emit_fn(self, spec):
        """A lost anchor inside ONE function must not make every property undecided: the function is
        then emitted with its contract only (external_body) and flagged; the checker reports it as
        undecided for the properties that list it."""
        import copy
        saved = (len(self.out), len(self.fns), len(self.pending_free), dict(self.rewrites))
        try:
            forced = getattr(self, "force_degrade", {}).get((spec.file, spec.container, spec.name))
            if forced and not getattr(spec, "_is_free_copy", False):
                # the verifier rejected a construct inside this function on a previous attempt
                raise ExtractError("unsupported construct: %s" % forced)
            if spec.opts.get("free") and not getattr(spec, "_is_free_copy", False):
                return self.emit_fn_with_free_twin(copy.deepcopy(spec))
            return self.emit_fn_inner(copy.deepcopy(spec))
        except ExtractError as e:
            if str(e).startswith("lost anchor: container") or "fn `" in str(e) and "not found" in str(e):
                raise
            del self.out[saved[0]:]
            del self.fns[saved[1]:]
            del self.pending_free[saved[2]:]
            self.rewrites = saved[3]
            fb = copy.deepcopy(spec)
            fb.opts.pop("free", None)
            at = fb.opts.get("attrs")
            fb.opts["attrs"] = (at + "," if at else "") + "verifier::external_body"
            fb.entry, fb.loops, fb.before, fb.after, fb.tail = [], {}, [], [], []
            fb.replace, fb.calls, fb.unsafe_stub = [], [], {}
            fb.panic_state = None
            fb._dummy_body = True
            fb._is_free_copy = True
            n0 = len(self.fns)
            self.emit_fn_inner(fb)
            self.fns[n0]["assumed"] = True
            self.fns[n0]["extract_error"] = str(e)
            self.count("degraded-to-contract-only:" + spec.name)

    def emit_fn_with_free_twin(self, spec):
        """R16: a trait default body is verified as a free generic function over an arbitrary
        implementor (`self` -> `self_`, `Self` -> `X`); the in-trait copy keeps the same contract
        and is marked external_body (discharged by the twin)."""
        import copy
        # (a) in-trait copy, assumed
        intrait = copy.copy(spec)
        intrait.opts = dict(spec.opts)
        intrait.opts.pop("free")
        at = intrait.opts.get("attrs")
        intrait.opts["attrs"] = (at + "," if at else "") + "verifier::external_body"
        intrait._is_free_copy = True
        # the in-trait copy needs no hints
        intrait.entry, intrait.loops, intrait.before, intrait.after, intrait.tail = [], {}, [], [], []
        intrait.panic_state = None
        if intrait.opts.get("implcopy") == "nocontract":
            # an impl of one of the crate's own traits inherits the trait's contract: the copy states none
            intrait.contract = []
        n0 = len(self.fns)
        self.emit_fn_inner(intrait)
        self.fns[n0]["assumed"] = True
        self.fns[n0]["discharged_by_twin"] = spec.opts["free"]
        # (b) free twin: render into a private buffer
        twin = copy.copy(spec)
        twin.opts = dict(spec.opts)
        twin._is_free_copy = True
        twin._free_name = spec.opts["free"]
        saved_out, saved_fns = self.out, self.fns
        self.out, self.fns = [], []
        try:
            self.emit_fn_inner(twin)
            lines, recs = self.out, self.fns
        finally:
            # (an ExtractError in the twin must not leave the private buffer installed)
            self.out, self.fns = saved_out, saved_fns
        rec = recs[0]
        rec["twin_of"] = "%s|%s|%s" % (spec.file, spec.container, spec.name)
        rec["free_name"] = spec.opts["free"]
        self.pending_free.append((lines, rec))
        self.count("R16-default-body-as-free-fn")

    def emit_fn_inner(self, spec):
        sf, it = self.repo.find_fn(spec.file, spec.container, spec.name)
        rec = {"name": spec.name, "container": spec.container, "file": spec.file,
               "line": it.line, "module": "::".join(self.cur_mod), "sig_only": spec.sig_only,
               "mode": "NP" if spec.valid else "N", "gen_line": len(self.out) + 1}
        header = list(it.header)
        sig = self.render_sig(header, spec)
        rec["signature"] = norm_tokens(it.header)
        if spec.opts.get("vname"):
            rec["vname"] = spec.opts["vname"]
        attrs = spec.opts.get("attrs")
        rec["assumed"] = bool(attrs and "external_body" in attrs)
        if attrs:
            for a in attrs.split(","):
                self.emit("#[%s]" % a)
        self.out.append((sig, (spec.file, it.line)))
        is_free = bool(getattr(spec, "_free_name", None))

        selfty_txt = spec.opts.get("selfty", "").replace(",", ", ").replace("~", " ") if is_free else ""

        def fr(text):
            if not is_free:
                return text
            text = re.sub(r"\bself\b", "self_", text)
            if selfty_txt:
                text = re.sub(r"\bSelf::Item\b", "<%s as Iterator>::Item" % selfty_txt, text)
                text = re.sub(r"\bSelf::IntoIter\b", "<%s as IntoIterator>::IntoIter" % selfty_txt, text)
                return re.sub(r"\bSelf\b", selfty_txt, text)
            return re.sub(r"\bSelf\b", "X", text)
        if is_free and spec.twinreq:
            self.emit("        requires")
            for ln in spec.twinreq:
                self.emit(fr(ln))
        for ln in spec.contract:
            self.emit(fr(ln))
        if it.body_open is None or spec.sig_only:
            if it.body_open is not None and not spec.sig_only:
                pass
            self.emit(";")
            rec["gen_end"] = len(self.out)
            self.fns.append(rec)
            return
        if getattr(spec, "_dummy_body", False):
            # degraded (contract-only) copy: the edited body may name items that are not in the
            # generated file; Verus ignores an external_body anyway
            self.emit("{ unimplemented!() }")
            rec["gen_end"] = len(self.out)
            self.fns.append(rec)
            return
        # body tokens (full, ws/comments kept, doc comments dropped)
        a = sf.ct[it.body_open].end
        b = sf.ct[it.body_close].start
        body = [Tok(t.kind, t.text, t.start, t.end, t.line) for t in sf.toks
                if t.start >= a and t.end <= b and t.kind != "doc"]
        if is_free:
            for t in body:
                if t.kind == "ident" and t.text == "self":
                    t.text = "self_"
                elif t.kind == "ident" and t.text == "Self":
                    t.text = selfty_txt if selfty_txt else "X"
            spec.entry = [fr(x) for x in spec.entry]
            spec.tail = [fr(x) for x in spec.tail]
            spec.loops = {k: (fl, [fr(x) for x in ls]) for k, (fl, ls) in spec.loops.items()}
            spec.before = [(k, fr(pt), [fr(x) for x in ls]) for (k, pt, ls) in spec.before]
            spec.after = [(k, fr(pt), [fr(x) for x in ls]) for (k, pt, ls) in spec.after]
            spec.replace = [(k, fr(pt), [fr(x) for x in ls]) for (k, pt, ls) in spec.replace]
            spec.calls = [(k, fn_, [fr(x) for x in ls]) for (k, fn_, ls) in spec.calls]
            if spec.valid:
                spec.valid = fr(spec.valid)
        if getattr(spec, "subst", None):
            body = self.relex(self.apply_subst(text_of(body), spec), body)
        body = self.rewrite_body(body, spec, rec)
        self.emit("{")
        pre = self.param_prologue(header, spec)
        for ln in pre:
            self.emit(ln)
        if spec.valid:
            self.emit("    let ghost __valid: bool = %s;" % spec.valid)
        for ln in spec.entry:
            self.emit(ln)
        if spec.tail:
            self.count("R14-tail-binding")
            self.emit("    let __ret = {")
        # emit body with origins
        text = text_of(body)
        line = sf.ct[it.body_open].line
        # each token knows its own line; rebuild line by line
        cur, cur_line = "", None
        for t in body:
            parts = t.text.split("\n")
            for k, p in enumerate(parts):
                if k > 0:
                    self.out.append((cur, (spec.file, cur_line) if cur_line else None))
                    cur, cur_line = "", None
                if p:
                    if cur_line is None and t.kind != "synthhint":
                        cur_line = t.line + (k if t.kind not in ("synth",) else 0)
                    cur += p
        self.out.append((cur, (spec.file, cur_line) if cur_line else None))
        if spec.tail:
            self.emit("    };")
            for ln in spec.tail:
                self.emit(ln)
            self.emit("    __ret")
        self.emit("}")
        rec["gen_end"] = len(self.out)
        rec["body_sha"] = hashlib.sha256(norm_text(sf.text[a:b]).encode()).hexdigest()[:12]
        self.fns.append(rec)

    def render_sig(self, header, spec):
        """Real signature with the result named; `mut x: T` params become `x: T`
        (the `let mut x = x;` prologue restores the semantics)."""
        toks = list(header)
        # find param list
        k = 0
        while toks[k].text != "fn":
            k += 1
        # generics
        p = k + 2
        if toks[p].text == "<":
            depth = 0
            while True:
                if toks[p].text == "<":
                    depth += 1
                elif toks[p].text == ">":
                    depth -= 1
                    if depth == 0:
                        break
                p += 1
            p += 1
        if toks[p].text != "(":
            raise ExtractError("cannot parse signature of %s" % spec.name)
        q = match_close(toks, p)
        params = toks[p + 1:q]
        newparams = []
        self._mut_params = []
        self._pat_params = []
        self._mut_self = False
        n_pat = 0
        for arg in split_args(params):
            arg = [t for t in arg]
            txt = norm_tokens(arg)
            if arg and arg[0].text == "mut" and len(arg) == 2 and arg[1].text == "self":
                # Verus: `mut self` unsupported -> `self` + `let mut __self = self;`, body `self` -> `__self`
                self._mut_self = True
                arg = arg[1:]
                self.count("R0-mut-self")
            elif arg and arg[0].text == "mut" and len(arg) > 2 and arg[2].text == ":":
                self._mut_params.append(arg[1].text)
                arg = arg[1:]
                self.count("R0-mut-param")
            elif arg and arg[0].text == "(":
                # tuple pattern parameter: (a, b): Ty  ->  __pN: Ty
                c = match_close(arg, 0)
                pat = norm_tokens(arg[:c + 1])
                name = "__p%d" % n_pat
                n_pat += 1
                self._pat_params.append((pat, name))
                arg = [synth(name, arg[0].line)] + arg[c + 1:]
                self.count("R0-pattern-param")
            newparams.append(norm_tokens(arg))
        rest = toks[q + 1:]
        # result naming
        res = spec.opts.get("result")
        rest_txt = norm_tokens(rest)
        if rest and rest[0].text == "-" and len(rest) > 1 and rest[1].text == ">":
            # return type up to `where`
            w = None
            depth = 0
            for j, t in enumerate(rest):
                if t.text in "([<":
                    depth += 1
                elif t.text in ")]>" and not (t.text == ">" and j > 0 and rest[j - 1].text == "-"):
                    depth -= 1
                elif t.kind == "ident" and t.text == "where" and depth == 0:
                    w = j
                    break
            rt = rest[2:w] if w is not None else rest[2:]
            wh = rest[w:] if w is not None else []
            rts = tight(norm_tokens(rt))
            if res:
                rest_txt = "-> (%s: %s)" % (res, rts)
            else:
                rest_txt = "-> " + rts
            if wh:
                rest_txt += " " + tight(norm_tokens(wh))
        else:
            rest_txt = tight(rest_txt)
        head = tight(norm_tokens(toks[:p]))
        free_name = getattr(spec, "_free_name", None)
        if free_name and spec.opts.get("selfty"):
            # R16 for a method of a trait IMPL: free function over the concrete self type
            selfty = spec.opts["selfty"].replace(",", ", ").replace("~", " ")
            fg = spec.opts.get("freegen", "")
            own = ""
            mg = re.match(r"^(.*?\bfn\s+\w+)\s*(<.*>)?$", head)
            if mg and mg.group(2):
                own = (", " if fg else "") + mg.group(2)[1:-1]
            head = "fn %s<%s%s>" % (free_name, fg.replace(",", ", "), own)
            fixed = []
            for x in newparams:
                t = tight(x)
                if t in ("&mut self", "& mut self"):
                    fixed.append("self_: &mut %s" % selfty)
                elif t in ("&self", "& self"):
                    fixed.append("self_: &%s" % selfty)
                elif t == "self":
                    fixed.append("self_: %s" % selfty)
                else:
                    fixed.append(x)
            newparams = fixed
            self._free_selfty = selfty
        elif free_name:
            # trait name and parameters from the container header:  pub trait Name<T> : ...
            m = re.match(r"(?:pub\s+)?trait\s+(\w+)\s*(<[^>]*>)?", norm_text(spec.container).replace(" ", "").replace("pubtrait", "pub trait ").replace("trait", "trait ", 1) if False else tight(norm_text(spec.container)))
            tname, tparams = m.group(1), (m.group(2) or "")
            own = ""
            mg = re.match(r"^(.*?\bfn\s+\w+)\s*(<.*>)?$", head)
            if mg and mg.group(2):
                own = ", " + mg.group(2)[1:-1]
            tp = tparams[1:-1] if tparams else ""
            head = "fn %s<%s%sX: %s%s%s>" % (free_name, tp, ", " if tp else "", tname, tparams, own)
            fixed = []
            for x in newparams:
                t = tight(x)
                if t in ("&mut self", "& mut self"):
                    fixed.append("self_: &mut X")
                elif t in ("&self", "& self"):
                    fixed.append("self_: &X")
                elif t == "self":
                    fixed.append("self_: X")
                else:
                    fixed.append(x)
            newparams = fixed
        head, nvis = re.subn(r"^pub\s*\(\s*super\s*\)\s*", "pub(crate) ", head)
        if nvis:
            self.count("R0-pub(super)", nvis)
        sig = "%s(%s) %s" % (head, ", ".join(tight(x) for x in newparams), rest_txt)
        if free_name and spec.opts.get("selfty"):
            st = spec.opts["selfty"].replace(",", ", ").replace("~", " ")
            sig = re.sub(r"\bSelf\s*::\s*Item\b", "<%s as Iterator>::Item" % st, sig)
            sig = re.sub(r"\bSelf\s*::\s*IntoIter\b", "<%s as IntoIterator>::IntoIter" % st, sig)
            sig = re.sub(r"\bSelf\b", st, sig)
        return self.apply_subst(sig, spec)

    def apply_subst(self, text, spec):
        for a, b in getattr(spec, "subst", []):
            toks = [re.escape(t.text) for t in code_toks(lex(a))]
            pat = r"\s*".join(toks)
            text, n = re.subn(pat, lambda m: b, text)
            if n:
                self.count("R8-instantiate", n)
        return text

    def param_prologue(self, header, spec):
        out = []
        for pat, name in self._pat_params:
            out.append("    let %s = %s;" % (pat, name))
        for m in self._mut_params:
            out.append("    let mut %s = %s;" % (m, m))
        if self._mut_self:
            out.append("    let mut __self = %s;" % ("self_" if getattr(spec, "_free_name", None) else "self"))
        return out

    # ------------------------------------------------------------------
    def rewrite_body(self, body, spec, rec):
        if self._mut_self:
            for t in body:
                if t.kind == "ident" and t.text in ("self", "self_"):
                    t.text = "__self"
        body = self.rw_macros(body, spec)
        body = self.relex(text_of(body), body)   # macro arguments become ordinary tokens again
        if spec.valid and spec.opts.get("unwrap", "rt") == "rt":
            body = self.rw_unwrap(body, spec)
        body = self.rw_ptr_swap(body, spec)
        body = self.rw_bool_then(body)
        body = self.rw_vec_unwind(body)
        body = self.rw_ref_wild(body)
        body = self.rw_unsafe_stubs(body, spec)
        # descending k: replacing an earlier occurrence must not renumber the later ones
        for k, fname, lines in sorted(spec.calls, key=lambda c: -c[0]):
            body = self.apply_call(body, k, fname, lines, spec)
        if spec.calls or spec.unsafe_stub:
            body = self.relex(text_of(body), body)
        for k, pat, lines in spec.replace:
            body = self.apply_replace(body, k, pat, lines, spec)
        # hints are anchored on the original statements, so they go in before loops are desugared
        for k, pat, lines in spec.before:
            body = self.apply_hint(body, k, pat, lines, spec, before=True)
        for k, pat, lines in spec.after:
            body = self.apply_hint(body, k, pat, lines, spec, before=False)
        body = self.apply_loops(body, spec)
        return body

    def rw_macros(self, body, spec):
        names = ("assert", "assert_eq", "assert_ne", "debug_assert", "debug_assert_eq", "debug_assert_ne")
        out = []
        i = 0
        while i < len(body):
            t = body[i]
            if t.kind == "ident" and t.text in names:
                j = next_code(body, i)
                if j < len(body) and body[j].text == "!":
                    p = next_code(body, j)
                    if p < len(body) and body[p].text == "(":
                        q = match_close_full(body, p)
                        args = split_args(body[p + 1:q])
                        # recursive rewrite inside arguments is not needed (no nesting in this crate)
                        a = [text_of(x).strip() for x in args]
                        nl = text_of(body[i:q + 1]).count("\n")
                        if t.text in ("assert", "debug_assert"):
                            cond = a[0]
                        elif t.text.endswith("_eq"):
                            cond = "(%s) == (%s)" % (a[0], a[1])
                        else:
                            cond = "(%s) != (%s)" % (a[0], a[1])
                        if t.text.startswith("debug_"):
                            new = "dbg_assert(%s)" % cond
                            self.count("R3-debug_assert")
                        else:
                            if t.text != "assert":
                                self.count("R2-assert_eq")
                            if spec.valid:
                                if spec.panic_state:
                                    ps = spec.panic_state
                                    if getattr(spec, "_free_name", None):
                                        ps = re.sub(r"\bself\b", "self_", ps)
                                    new = "{ let ghost __ps: bool = (%s); rt_assert_st(%s, Ghost(__valid), Ghost(__ps)) }" % (ps, cond)
                                else:
                                    new = "rt_assert(%s, Ghost(__valid))" % cond
                                self.count("R1-rt_assert")
                            else:
                                new = "assert!(%s)" % cond
                        out.append(synth(new + "\n" * nl, t.line))
                        i = q + 1
                        continue
            out.append(t)
            i += 1
        return out

    def rw_unwrap(self, body, spec):
        out = []
        i = 0
        while i < len(body):
            t = body[i]
            if t.text == "." and t.kind == "punct":
                j = next_code(body, i)
                if j < len(body) and body[j].text == "expect":
                    p = next_code(body, j)
                    if p < len(body) and body[p].text == "(":
                        q = match_close_full(body, p)
                        out.append(synth(".rt_unwrap(Ghost(__valid))", t.line))
                        self.count("R4-rt_unwrap")
                        i = q + 1
                        continue
                if j < len(body) and body[j].text == "unwrap":
                    p = next_code(body, j)
                    if p < len(body) and body[p].text == "(":
                        q = next_code(body, p)
                        if q < len(body) and body[q].text == ")":
                            out.append(synth(".rt_unwrap(Ghost(__valid))", t.line))
                            self.count("R4-rt_unwrap")
                            i = q + 1
                            continue
            out.append(t)
            i += 1
        return out

    def rw_ptr_swap(self, body, spec):
        """R5a: let pa: *mut T = X.get_unchecked_mut(A); let pb: *mut T = Y.get_unchecked_mut(B); ptr::swap(pa, pb);"""
        txt = text_of(body)
        if "ptr::swap(" not in txt and "ptr::swap_nonoverlapping(" not in txt:
            return body
        pat = re.compile(
            r"let\s+pa\s*:\s*\*mut\s+T\s*=\s*(?P<x>[\w\.]+)\.get_unchecked_mut\((?P<a>[^;]*)\)\s*;(?P<w1>\s*)"
            r"let\s+pb\s*:\s*\*mut\s+T\s*=\s*(?P<y>[\w\.]+)\.get_unchecked_mut\((?P<b>[^;]*)\)\s*;(?P<w2>\s*)"
            r"ptr::swap\(\s*pa\s*,\s*pb\s*\)\s*;")

        def rep(m):
            self.count("R5a-ptr_swap")
            nl = "\n" * (m.group(0).count("\n"))
            if m.group("x") == m.group("y"):
                x = m.group("x")
                recv = x if not x.startswith("self.") else "&mut " + x
                return "stub_swap_in_slice(%s, %s, %s);%s" % (fixrecv(x), m.group("a"), m.group("b"), nl)
            return "stub_swap_cells(%s, %s, %s, %s);%s" % (fixrecv(m.group("x")), m.group("a"), fixrecv(m.group("y")), m.group("b"), nl)

        def fixrecv(x):
            # a field place needs an explicit `&mut`; a `&mut [T]` local is passed as is
            if x.startswith("self."):
                return "&mut %s" % x
            return x

        new = pat.sub(rep, txt)
        pat2 = re.compile(r"ptr::swap_nonoverlapping\(\s*(\w+)\.as_mut_ptr\(\)\s*,\s*(\w+)\.as_mut_ptr\(\)\s*,\s*([^;]*?)\)\s*;")

        def rep2(m):
            self.count("R5b-swap_nonoverlapping")
            return "stub_swap_slices(%s, %s, %s);" % (m.group(1), m.group(2), m.group(3))
        new = pat2.sub(rep2, new)
        if new == txt:
            return body
        return self.relex(new, body)

    def relex(self, new_text, old_body):
        """Re-lex rewritten text, keeping line numbers relative to the old body start."""
        l0 = old_body[0].line if old_body else 1
        toks = lex(new_text)
        for t in toks:
            t.line = t.line - 1 + l0
        return toks

    def rw_vec_unwind(self, body):
        """R20: `self.data.clear()` / `self.data.resize(n, v)` on the owned array's vector run caller code
        (element destructors / Clone) that may panic after the vector's length has already changed: the
        stubs require that the dimensions were zeroed BEFORE the call (C11: a caught panic leaves a valid array)."""
        txt = text_of(body)
        if "self.data.clear(" not in txt.replace(" ", "") and "self.data.resize(" not in txt.replace(" ", ""):
            return body
        new = re.sub(r"self\s*\.\s*data\s*\.\s*clear\s*\(\s*\)",
                     "{ let ghost __dz = self.num_cols == 0 && self.num_rows == 0; stub_vec_clear(&mut self.data, Ghost(__dz)) }", txt)
        new = re.sub(r"self\s*\.\s*data\s*\.\s*resize\s*\(",
                     "stub_vec_resize(&mut self.data, Ghost(self.num_cols == 0 && self.num_rows == 0), ", new)
        if new == txt:
            return body
        self.count("R20-vec-unwind-state")
        return self.relex(new, body)

    def rw_bool_then(self, body):
        """R17: `(COND).then(move || EXPR)` -> `if COND { Some(EXPR) } else { None }` (std's definition of bool::then)."""
        i = 0
        while i < len(body):
            t = body[i]
            if t.kind == "ident" and t.text == "then":
                a = prev_code(body, i)
                b = next_code(body, i)
                if a >= 0 and body[a].text == "." and b < len(body) and body[b].text == "(":
                    rp = prev_code(body, a)
                    if rp >= 0 and body[rp].text == ")":
                        # find the matching "(" of the receiver
                        depth = 0
                        lp = None
                        for x in range(rp, -1, -1):
                            if body[x].kind == "punct":
                                if body[x].text in ")]}":
                                    depth += 1
                                elif body[x].text in "([{":
                                    depth -= 1
                                    if depth == 0:
                                        lp = x
                                        break
                        q = match_close_full(body, b)
                        c = next_code(body, b)
                        if c < len(body) and body[c].text == "move":
                            c = next_code(body, c)
                        c2 = next_code(body, c)
                        # a receiver that is a call `f(..)` is not a parenthesised bool expression
                        pre = prev_code(body, lp) if lp is not None else -1
                        is_paren_expr = lp is not None and (pre < 0 or body[pre].kind != "ident" or body[pre].text in ("return", "in", "else"))
                        if is_paren_expr and body[c].text == "|" and body[c2].text == "|":
                            cond = text_of(body[lp + 1:rp])
                            expr = text_of(body[c2 + 1:q])
                            rep = synth("if %s { Some(%s) } else { None }" % (cond.strip(), expr.strip()), body[lp].line)
                            body = body[:lp] + [rep] + body[q + 1:]
                            self.count("R17-bool-then-inline")
                            body = self.relex(text_of(body), body)
                            i = 0
                            continue
            i += 1
        return body

    def rw_ref_wild(self, body):
        out = []
        i = 0
        while i < len(body):
            t = body[i]
            if t.text == "&":
                j = next_code(body, i)
                if j < len(body) and body[j].text == "_":
                    k = next_code(body, j)
                    if k + 1 < len(body) and body[k].text == "=" and body[next_code(body, k)].text == ">":
                        self.count("R10-ref-wild")
                        i = j
                        continue
            out.append(t)
            i += 1
        return out

    def rw_unsafe_stubs(self, body, spec):
        if not spec.unsafe_stub:
            return body
        out = []
        i = 0
        n = 0
        while i < len(body):
            t = body[i]
            if t.kind == "ident" and t.text == "unsafe":
                j = next_code(body, i)
                if j < len(body) and body[j].text == "{":
                    n += 1
                    if n in spec.unsafe_stub:
                        q = match_close_full(body, j)
                        nl = text_of(body[i:q + 1]).count("\n")
                        out.append(synth("\n".join(spec.unsafe_stub[n]) , t.line))
                        out.append(Tok("synthhint", "\n" * 0, -1, -1, t.line))
                        self.count("R5c-unsafe-block-stub")
                        i = q + 1
                        continue
            out.append(t)
            i += 1
        missing = [k for k in spec.unsafe_stub if k > n]
        if missing:
            raise ExtractError("lost anchor: unsafe block #%s in %s" % (missing, spec.name))
        return out

    def apply_call(self, body, k, fname, lines, spec):
        occ = []
        for i, t in enumerate(body):
            if t.kind == "ident" and t.text == fname:
                j = next_code(body, i)
                if j < len(body) and body[j].text == "(":
                    occ.append((i, j))
        if len(occ) < k:
            raise ExtractError("lost anchor: call `%s` #%d in %s" % (fname, k, spec.name))
        i, j = occ[k - 1]
        q = match_close_full(body, j)
        args = [text_of(a).strip() for a in split_args(body[j + 1:q])]
        # receiver: `X.fname(` -> walk back over a simple path expression
        start = i
        recv = ""
        p = prev_code(body, i)
        if p >= 0 and body[p].text == ".":
            e = p
            b = prev_code(body, p)
            first = b
            while b >= 0 and (body[b].kind == "ident" or body[b].text in (".",)):
                first = b
                nb = prev_code(body, b)
                if body[b].kind == "ident" and (nb < 0 or body[nb].text not in (".",)):
                    break
                b = nb
            b = first
            recv = text_of(body[b:e]).strip()
            start = b
        tpl = "\n".join(lines).strip("\n")
        tpl = tpl.replace("$0", recv)
        for n in range(len(args), 0, -1):
            tpl = tpl.replace("$%d" % n, args[n - 1])
        nl = text_of(body[start:q + 1]).count("\n")
        self.count("R13-call-stub:" + fname)
        return body[:start] + [synth(tpl + "\n" * max(0, nl - tpl.count("\n")), body[start].line)] + body[q + 1:]

    def apply_replace(self, body, k, pat, lines, spec):
        pt = code_texts(pat)
        occ = list(find_seq(body, pt))
        if len(occ) < k:
            # the construct this rule rewrites is gone: verify the body as it now is (if the new text is
            # outside Verus's subset the compile error degrades the function, DESIGN section 7)
            self.count("replace-anchor-lost:" + spec.name)
            return body
        a, b = occ[k - 1]
        nl = text_of(body[a:b + 1]).count("\n")
        self.count("Rx-replace:" + spec.name)
        new = "\n".join(lines).strip("\n")
        return body[:a] + [synth(new + "\n" * max(0, nl - new.count("\n")), body[a].line)] + body[b + 1:]

    def apply_loops(self, body, spec):
        if not spec.loops:
            return body
        # locate loop keywords in source order
        pos = [i for i, t in enumerate(body) if t.kind == "ident" and t.text in ("while", "loop", "for")
               and not (t.text == "for" and self._is_hrtb(body, i))]
        edits = []
        for k, (flags, lines) in spec.loops.items():
            if k > len(pos):
                raise ExtractError("lost anchor: loop #%d in %s" % (k, spec.name))
            i = pos[k - 1]
            # opening brace of the loop body: first `{` at paren depth 0 after keyword
            depth = 0
            j = i + 1
            while j < len(body):
                t = body[j]
                if t.kind == "punct":
                    if t.text in "([":
                        depth += 1
                    elif t.text in ")]":
                        depth -= 1
                    elif t.text == "{" and depth == 0:
                        break
                j += 1
            if j >= len(body):
                raise ExtractError("cannot find loop body of loop #%d in %s" % (k, spec.name))
            edits.append((i, j, flags, lines, body[i].text))
        # apply from last to first
        for i, j, flags, lines, kw in sorted(edits, key=lambda e: -e[0]):
            inv = "\n".join(lines)
            if kw == "for" and "desugar" in flags:
                # R6: for P in E { B }  ->  { let mut it = E; loop INV { match it.next() { Some(P) => { B } None => { break; } } } }
                q = match_close_full(body, j)
                hdr = body[i + 1:j]
                # split at ` in ` (first top-level `in` ident)
                d = 0
                cut = None
                for x, t in enumerate(hdr):
                    if t.kind == "punct" and t.text in "([{":
                        d += 1
                    elif t.kind == "punct" and t.text in ")]}":
                        d -= 1
                    elif t.kind == "ident" and t.text == "in" and d == 0:
                        cut = x
                        break
                if cut is None:
                    raise ExtractError("cannot desugar for-loop #%d in %s" % (k, spec.name))
                pat = text_of(hdr[:cut]).strip()
                expr = text_of(hdr[cut + 1:]).strip()
                itn = flags["desugar"]
                nxt = flags.get("next", "next")
                # lines before a `---` separator are ghost statements placed between the `let` and the loop
                postlet = ""
                if "\n---\n" in "\n" + inv + "\n":
                    postlet, inv = ("\n" + inv).split("\n---\n", 1)
                # lines after a `+++` separator are placed after the loop, still inside the block that owns `it`
                afterloop = ""
                if "\n+++\n" in inv + "\n":
                    inv, afterloop = (inv + "\n").split("\n+++\n", 1)
                if "zip" in flags:
                    # R18: for (a, b) in A.zip(B) { BODY }  -- std's Zip::next is `let x = a.next()?; let y = b.next()?; Some((x, y))`
                    etoks = hdr[cut + 1:]
                    zpos = None
                    d = 0
                    for x, t in enumerate(etoks):
                        if t.kind == "punct" and t.text in "([{":
                            d += 1
                        elif t.kind == "punct" and t.text in ")]}":
                            d -= 1
                        elif d == 0 and t.kind == "ident" and t.text == "zip" and x > 0 and etoks[prev_code(etoks, x)].text == ".":
                            zpos = x
                    ptoks = [t for t in hdr[:cut] if is_code(t)]
                    if zpos is None or len(ptoks) < 5 or ptoks[0].text != "(" or ptoks[-1].text != ")":
                        raise ExtractError("cannot desugar zip for-loop #%d in %s" % (k, spec.name))
                    zo = next_code(etoks, zpos)
                    zc = match_close_full(etoks, zo)
                    if any(is_code(t) for t in etoks[zc + 1:]):
                        raise ExtractError("cannot desugar zip for-loop #%d in %s (trailing adaptor)" % (k, spec.name))
                    ea = text_of(etoks[:prev_code(etoks, zpos)]).strip()
                    eb = text_of(etoks[zo + 1:zc]).strip()
                    parts = split_args(ptoks[1:-1])
                    if len(parts) != 2:
                        raise ExtractError("cannot desugar zip for-loop #%d in %s (pattern)" % (k, spec.name))
                    pa, pb = text_of(parts[0]).strip(), text_of(parts[1]).strip()
                    itb = flags["zip"]
                    pre = synth("{ let mut %s = %s; let mut %s = %s;%s\nloop\n%s\n{ match %s.next() { Some(%s) => { match %s.next() { Some(%s) => {"
                                % (itn, ea, itb, eb, postlet, inv, itn, pa, itb, pb), body[i].line)
                    pre.kind = "synthhint"
                    post = synth("} None => { break; } } } None => { break; } } }\n%s }" % afterloop, body[q].line)
                    body = body[:i] + [pre] + body[j + 1:q] + [post] + body[q + 1:]
                    self.count("R18-zip-for-desugar")
                    continue
                pre = synth("{ let mut %s = %s;%s\nloop\n%s\n{ match %s.%s() { Some(%s) => {" % (itn, expr, postlet, inv, itn, nxt, pat), body[i].line)
                pre.kind = "synthhint"
                post = synth("} None => { break; } } }\n%s }" % afterloop, body[q].line)
                body = body[:i] + [pre] + body[j + 1:q] + [post] + body[q + 1:]
                self.count("R6-for-desugar")
            else:
                afterloop = ""
                if "\n+++\n" in inv + "\n":
                    inv, afterloop = (inv + "\n").split("\n+++\n", 1)
                if afterloop:
                    q = match_close_full(body, j)
                    body = body[:q + 1] + [Tok("synthhint", "\n" + afterloop + "\n", -1, -1, body[q].line)] + body[q + 1:]
                h = Tok("synthhint", "\n" + inv + "\n", -1, -1, body[j].line)
                body = body[:j] + [h] + body[j:]
                if kw == "for" and "iter" in flags:
                    # Verus names the ghost iterator of a native for-loop:  for x in NAME: EXPR
                    d = 0
                    for x in range(i + 1, j):
                        t = body[x]
                        if t.kind == "punct" and t.text in "([{":
                            d += 1
                        elif t.kind == "punct" and t.text in ")]}":
                            d -= 1
                        elif t.kind == "ident" and t.text == "in" and d == 0:
                            body = body[:x + 1] + [Tok("synthhint", " %s:" % flags["iter"], -1, -1, t.line)] + body[x + 1:]
                            break
        return body

    def _is_hrtb(self, body, i):
        j = next_code(body, i)
        return j < len(body) and body[j].text == "<"

    def apply_hint(self, body, k, pat, lines, spec, before=True):
        pt = code_texts(pat)
        occ = list(find_seq(body, pt))
        if len(occ) < k:
            # a lost hint anchor is not fatal: skip the hint (DESIGN section 7)
            self.count("hint-anchor-lost:" + spec.name)
            return body
        a, b = occ[k - 1]
        if before:
            # walk back to statement start
            depth = 0
            j = a - 1
            while j >= 0:
                t = body[j]
                if t.kind == "punct":
                    if t.text in ")]}":
                        if t.text == "}" and depth == 0:
                            break
                        depth += 1
                    elif t.text in "([{":
                        if depth == 0:
                            break
                        depth -= 1
                    elif t.text == ";" and depth == 0:
                        break
                j -= 1
            ins = j + 1
        elif body[b].text == ";":
            ins = b + 1
        else:
            depth = 0
            j = b + 1
            while j < len(body):
                t = body[j]
                if t.kind == "punct":
                    if t.text in "([{":
                        depth += 1
                    elif t.text in ")]}":
                        if depth == 0:
                            break
                        depth -= 1
                    elif t.text == ";" and depth == 0:
                        j += 1
                        break
                j += 1
            ins = j
        h = Tok("synthhint", "\n" + "\n".join(lines) + "\n", -1, -1, body[a].line)
        return body[:ins] + [h] + body[ins:]

    # ------------------------------------------------------------------
    def result(self):
        text = "\n".join(ln for ln, _ in self.out) + "\n"
        linemap = [o for _, o in self.out]
        return text, linemap


def tight(s):
    """Cosmetic: undo the token-join spacing for common punctuation."""
    s = re.sub(r"\s*::\s*", "::", s)
    s = re.sub(r"\s*<\s*", "<", s)
    s = re.sub(r"\s*>", ">", s)
    s = re.sub(r"-\s*>", " -> ", s)
    s = re.sub(r"\s*,\s*", ", ", s)
    s = re.sub(r"&\s+", "&", s)
    s = re.sub(r"\s*:\s*(?!:)", ": ", s)
    s = re.sub(r":\s+:", "::", s)
    s = re.sub(r"\(\s+", "(", s)
    s = re.sub(r"\s+\)", ")", s)
    s = re.sub(r"\[\s+", "[", s)
    s = re.sub(r"\s+\]", "]", s)
    s = re.sub(r"\s+", " ", s)
    s = re.sub(r">\s*\(", ">(", s)
    s = s.replace("= >", "=>").replace("- >", "->")
    return s.strip()


def generate(template, repo_src, out_path, force_degrade=None):
    g = Generator(repo_src)
    g.force_degrade = dict(force_degrade or {})
    g.process_template(template)
    text, linemap = g.result()
    os.makedirs(os.path.dirname(out_path), exist_ok=True)
    with open(out_path, "w") as f:
        f.write(text)
    meta = {"fns": g.fns, "structs": g.structs, "rewrites": g.rewrites,
            "linemap": linemap}
    with open(out_path + ".map.json", "w") as f:
        json.dump(meta, f)
    return g, meta


if __name__ == "__main__":
    tpl, src, out = sys.argv[1:4]
    try:
        g, meta = generate(tpl, src, out)
    except ExtractError as e:
        print("UNDECIDED extract: %s" % e)
        sys.exit(2)
    print("generated %s: %d lines, %d fns, rewrites=%s" % (out, len(meta["linemap"]), len(meta["fns"]), meta["rewrites"]))
