#!/usr/bin/env python3
"""Regenerate MANIFEST.json from contracts/properties.json + contracts/manifest_texts.json."""
import json, os
V = os.path.dirname(os.path.dirname(os.path.abspath(__file__)))
pm = json.load(open(os.path.join(V, "contracts/properties.json")))
tx = json.load(open(os.path.join(V, "contracts/manifest_texts.json")))
props = [json.loads(l) for l in open(os.path.join(V, "properties.jsonl"))]
checks, na = [], []
for p in props:
    pid = p["id"]
    if pid in pm["properties"] and pid in tx["checks"]:
        t = tx["checks"][pid]
        checks.append({
            "property_id": pid,
            "quick_cmd": "./check %s quick" % pid,
            "thorough_cmd": "./check %s thorough" % pid,
            "evidence_file": "/verif/evidence/%s.json" % pid,
            "replay_cmd_template": "python3 tools/replay.py {path}",
            "engine": "vx+verus" + ("+kani" if pm["properties"][pid].get("kani") else ""),
            "level_claimed": {"category": pm["properties"][pid].get("level", "proof"), "text": t["text"], "design_ref": t.get("design_ref", "DESIGN.md section 6 " + pid)},
            "level_note": t["note"],
            "technique": t["technique"],
        })
    else:
        na.append({"property_id": pid, "reason": tx["not_applicable"].get(pid, "check not built yet in this round; no claim is made")})
m = {
    "version": 1,
    "setup_cmd": "sh tools/setup.sh",
    "hooks": {"guard": "kani", "enable": "no hook in /repo: Verus runs on text extracted from /repo/src on every run; Kani harness modules are appended to a scratch copy of /repo under cfg(kani), which only `cargo kani` sets",
              "baseline_off_cmd": "cd /repo && cargo test --workspace --no-fail-fast --offline",
              "source_commits": [], "add_only": True},
    "engines": [
        {"name": "vx+verus", "path": "tools/check.py", "serves_properties": [c["property_id"] for c in checks],
         "kind_free_text": "mechanical extraction of /repo functions into one Verus file with contracts from /verif/contracts, discharged by Verus/Z3"},
        {"name": "kani", "path": "tools/kx.py", "serves_properties": [c["property_id"] for c in checks if "kani" in c["engine"]],
         "kind_free_text": "bounded Kani/CBMC harnesses on a scratch copy of /repo for the raw-pointer code Verus cannot model (labelled bounded)"},
    ],
    "checks": checks,
    "notes": tx.get("notes", ""),
    "not_applicable": na,
}
json.dump(m, open(os.path.join(V, "MANIFEST.json"), "w"), indent=1)
print("MANIFEST: %d checks, %d not_applicable" % (len(checks), len(na)))
