//! Family `insrem`: insert/push/remove/pop of rows and columns, drains, drop accounting. [C06, C07, C05, C01]
use crate::common::*;
use crate::tok::{self, Cell, Tok};
use serde_json::{json, Value};
use std::collections::VecDeque;
use toodee::{TooDee, TooDeeOps};

/// The shape invariant of C01.
pub fn shape_invariant<T>(variant: &str, t: &TooDee<T>) -> Res {
    let (c, r) = (t.num_cols(), t.num_rows());
    let bad = |what: &str, exp: String, got: String| Err(Fail::new(format!("{}: shape invariant: {}", variant, what), exp, got));
    if c.checked_mul(r) != Some(t.data().len()) {
        return bad("cols*rows == data().len()", format!("{}x{} cells", c, r), format!("data().len()={}", t.data().len()));
    }
    if (c == 0) != (r == 0) {
        return bad("zero rule", "both dimensions zero or both non-zero".into(), format!("({},{})", c, r));
    }
    if t.size() != (c, r) {
        return bad("size()", format!("{:?}", (c, r)), format!("{:?}", t.size()));
    }
    let rl = t.rows().len();
    if rl != r {
        return bad("rows().len()", format!("{}", r), format!("{}", rl));
    }
    for row in t.rows() {
        if row.len() != c {
            return bad("row length", format!("{}", c), format!("{}", row.len()));
        }
    }
    if t.rows().count() != r {
        return bad("rows().count()", format!("{}", r), format!("{}", t.rows().count()));
    }
    for cc in 0..c {
        let cl = t.col(cc).len();
        if cl != r {
            return bad("col(c).len()", format!("{}", r), format!("{}", cl));
        }
    }
    let cl = t.cells().len();
    if cl != c * r {
        return bad("cells().len()", format!("{}", c * r), format!("{}", cl));
    }
    Ok(())
}

/// Reads the array into a grid of logical values (only meaningful if the invariant holds).
pub fn read_vals<T: Cell>(t: &TooDee<T>) -> Grid {
    let (c, r) = (t.num_cols(), t.num_rows());
    if c == 0 || r == 0 {
        return Vec::new();
    }
    (0..r).map(|rr| (0..c).map(|cc| t[(cc, rr)].val()).collect()).collect()
}

pub fn check_vals<T: Cell>(variant: &str, t: &TooDee<T>, model: &Grid) -> Res {
    let dims = grid_dims(model);
    let got_dims = (t.num_cols(), t.num_rows());
    let data: Vec<u32> = t.data().iter().map(|x| x.val()).collect();
    if dims == got_dims && flat(model) == data {
        Ok(())
    } else {
        Err(Fail::new(variant, format!("dims={:?} cells={:?}", dims, model), format!("dims={:?} data={:?}", got_dims, data)))
    }
}

// -------------------------------------------------------------------------------------------------
// Operations

#[derive(Debug, Clone, PartialEq)]
pub enum Op {
    InsertRow(usize, usize),
    PushRow(usize),
    InsertCol(usize, usize),
    PushCol(usize),
    /// index, (front, back, mode)
    RemoveRow(usize, Plan),
    PopRow(Plan),
    RemoveCol(usize, Plan),
    PopCol(Plan),
}

/// Drain consumption plan: take `front` items from the front and `back` from the back.
/// mode 0: fronts first, 1: backs first, 2: alternating (front first). len() is read after every step.
/// mode 3 / 4: as mode 0, then the rest is consumed through `Iterator::last()` / `Iterator::count()`.
#[derive(Debug, Clone, Copy, PartialEq)]
pub struct Plan {
    pub front: usize,
    pub back: usize,
    pub mode: usize,
}

impl Plan {
    fn to_json(&self) -> Value {
        json!([self.front, self.back, self.mode])
    }
    fn from_json(v: &Value) -> Plan {
        Plan { front: ju(&v[0]), back: ju(&v[1]), mode: ju(&v[2]) }
    }
    /// true = front
    pub fn steps(&self) -> Vec<bool> {
        let mut v = Vec::new();
        match self.mode {
            0 | 3 | 4 => {
                v.extend(std::iter::repeat(true).take(self.front));
                v.extend(std::iter::repeat(false).take(self.back));
            }
            1 => {
                v.extend(std::iter::repeat(false).take(self.back));
                v.extend(std::iter::repeat(true).take(self.front));
            }
            _ => {
                let (mut f, mut b) = (self.front, self.back);
                while f > 0 || b > 0 {
                    if f > 0 {
                        v.push(true);
                        f -= 1;
                    }
                    if b > 0 {
                        v.push(false);
                        b -= 1;
                    }
                }
            }
        }
        v
    }
}

impl Op {
    pub fn to_json(&self) -> Value {
        match self {
            Op::InsertRow(i, l) => json!(["insert_row", i, l]),
            Op::PushRow(l) => json!(["push_row", l]),
            Op::InsertCol(i, l) => json!(["insert_col", i, l]),
            Op::PushCol(l) => json!(["push_col", l]),
            Op::RemoveRow(i, p) => json!(["remove_row", i, p.to_json()]),
            Op::PopRow(p) => json!(["pop_row", p.to_json()]),
            Op::RemoveCol(i, p) => json!(["remove_col", i, p.to_json()]),
            Op::PopCol(p) => json!(["pop_col", p.to_json()]),
        }
    }
    pub fn from_json(v: &Value) -> Op {
        match js(&v[0]) {
            "insert_row" => Op::InsertRow(ju(&v[1]), ju(&v[2])),
            "push_row" => Op::PushRow(ju(&v[1])),
            "insert_col" => Op::InsertCol(ju(&v[1]), ju(&v[2])),
            "push_col" => Op::PushCol(ju(&v[1])),
            "remove_row" => Op::RemoveRow(ju(&v[1]), Plan::from_json(&v[2])),
            "pop_row" => Op::PopRow(Plan::from_json(&v[1])),
            "remove_col" => Op::RemoveCol(ju(&v[1]), Plan::from_json(&v[2])),
            "pop_col" => Op::PopCol(Plan::from_json(&v[1])),
            o => panic!("unknown op {}", o),
        }
    }
}

/// Values supplied by the n-th operation of a history.
pub fn supplied(opnum: usize, len: usize) -> Vec<u32> {
    (0..len).map(|k| (9000 + 100 * opnum + k) as u32).collect()
}

fn model_drain(items: Vec<u32>, plan: &Plan) -> Vec<String> {
    let mut q: VecDeque<u32> = items.into();
    let mut tr = vec![format!("len={}", q.len())];
    for front in plan.steps() {
        let x = if front { q.pop_front() } else { q.pop_back() };
        tr.push(format!("{}={:?} len={}", if front { "next" } else { "next_back" }, x, q.len()));
    }
    match plan.mode {
        3 => tr.push(format!("last={:?}", q.back())),
        4 => tr.push(format!("count={}", q.len())),
        _ => {}
    }
    tr
}

/// The model. `None` = the call must panic (grid untouched).
pub fn model_apply(g: &mut Grid, opnum: usize, op: &Op) -> Option<Vec<String>> {
    let (c, r) = grid_dims(g);
    match op {
        Op::InsertRow(..) | Op::PushRow(..) => {
            let (i, len) = match op {
                Op::InsertRow(i, l) => (*i, *l),
                Op::PushRow(l) => (r, *l),
                _ => unreachable!(),
            };
            if i > r || (r != 0 && len != c) {
                return None;
            }
            if len > 0 {
                g.insert(i, supplied(opnum, len));
            }
            Some(vec![])
        }
        Op::InsertCol(..) | Op::PushCol(..) => {
            let (i, len) = match op {
                Op::InsertCol(i, l) => (*i, *l),
                Op::PushCol(l) => (c, *l),
                _ => unreachable!(),
            };
            if i > c || (c != 0 && len != r) {
                return None;
            }
            let items = supplied(opnum, len);
            if c == 0 {
                *g = items.into_iter().map(|x| vec![x]).collect();
            } else {
                for (row, x) in g.iter_mut().zip(items) {
                    row.insert(i, x);
                }
            }
            Some(vec![])
        }
        Op::RemoveRow(..) | Op::PopRow(..) => {
            let (i, plan) = match op {
                Op::RemoveRow(i, p) => (*i, p),
                Op::PopRow(p) => {
                    if r == 0 {
                        return Some(vec!["None".to_string()]);
                    }
                    (r - 1, p)
                }
                _ => unreachable!(),
            };
            if i >= r {
                return None;
            }
            let row = g.remove(i);
            Some(model_drain(row, plan))
        }
        Op::RemoveCol(..) | Op::PopCol(..) => {
            let (i, plan) = match op {
                Op::RemoveCol(i, p) => (*i, p),
                Op::PopCol(p) => {
                    if c == 0 {
                        return Some(vec!["None".to_string()]);
                    }
                    (c - 1, p)
                }
                _ => unreachable!(),
            };
            if i >= c {
                return None;
            }
            let col: Vec<u32> = g.iter_mut().map(|row| row.remove(i)).collect();
            if c == 1 {
                g.clear();
            }
            Some(model_drain(col, plan))
        }
    }
}

fn real_drain<T: Cell, D: DoubleEndedIterator<Item = T> + ExactSizeIterator>(mut d: D, plan: &Plan) -> Vec<String> {
    let mut tr = vec![format!("len={}", d.len())];
    for front in plan.steps() {
        let x = if front { d.next() } else { d.next_back() };
        let v = x.as_ref().map(|t| t.val());
        drop(x);
        tr.push(format!("{}={:?} len={}", if front { "next" } else { "next_back" }, v, d.len()));
    }
    match plan.mode {
        3 => {
            let x = d.last();
            let v = x.as_ref().map(|t| t.val());
            drop(x);
            tr.push(format!("last={:?}", v));
        }
        4 => tr.push(format!("count={}", d.count())),
        _ => {}
    }
    tr
}

/// Applies the operation to the real array (panics propagate to the caller's catch).
pub fn real_apply<T: Cell>(t: &mut TooDee<T>, opnum: usize, op: &Op) -> Vec<String> {
    let mk = |len: usize| -> Vec<T> { supplied(opnum, len).into_iter().map(T::make).collect() };
    match op {
        Op::InsertRow(i, l) => {
            t.insert_row(*i, mk(*l));
            vec![]
        }
        Op::PushRow(l) => {
            t.push_row(mk(*l));
            vec![]
        }
        Op::InsertCol(i, l) => {
            t.insert_col(*i, mk(*l));
            vec![]
        }
        Op::PushCol(l) => {
            t.push_col(mk(*l));
            vec![]
        }
        Op::RemoveRow(i, p) => real_drain(t.remove_row(*i), p),
        Op::PopRow(p) => match t.pop_row() {
            None => vec!["None".to_string()],
            Some(d) => real_drain(d, p),
        },
        Op::RemoveCol(i, p) => real_drain(t.remove_col(*i), p),
        Op::PopCol(p) => match t.pop_col() {
            None => vec!["None".to_string()],
            Some(d) => real_drain(d, p),
        },
    }
}

// -------------------------------------------------------------------------------------------------
// Enumeration

fn plans(n: usize, full: bool) -> Vec<Plan> {
    let mut v = Vec::new();
    if full {
        for front in 0..=n + 1 {
            for back in 0..=n + 1 - front {
                for mode in 0..3 {
                    if mode > 0 && (front == 0 || back == 0) {
                        continue; // same as mode 0
                    }
                    v.push(Plan { front, back, mode });
                }
            }
        }
        for front in 0..=n {
            for back in 0..=(n - front).min(1) {
                v.push(Plan { front, back, mode: 3 });
                v.push(Plan { front, back, mode: 4 });
            }
        }
    } else {
        v.push(Plan { front: 0, back: 0, mode: 0 });
        if n > 0 {
            v.push(Plan { front: n, back: 0, mode: 0 });
            v.push(Plan { front: 0, back: n, mode: 0 });
            v.push(Plan { front: 1, back: 0, mode: 0 });
        }
        if n > 1 {
            v.push(Plan { front: 1, back: 1, mode: 2 });
            v.push(Plan { front: 1, back: 0, mode: 3 });
        }
    }
    v
}

/// All operations to try on an array of size (c, r).
pub fn ops_for(c: usize, r: usize, full: bool) -> Vec<Op> {
    let few_huge: Vec<usize> = if full { huge() } else { vec![usize::MAX] };
    let mut v = Vec::new();
    let mut row_idx: Vec<usize> = (0..=r + 1).collect();
    row_idx.extend(few_huge.iter());
    let mut col_idx: Vec<usize> = (0..=c + 1).collect();
    col_idx.extend(few_huge.iter());
    for &i in &row_idx {
        for len in 0..=c + 1 {
            v.push(Op::InsertRow(i, len));
        }
    }
    for len in 0..=c + 1 {
        v.push(Op::PushRow(len));
    }
    for &i in &col_idx {
        for len in 0..=r + 1 {
            v.push(Op::InsertCol(i, len));
        }
    }
    for len in 0..=r + 1 {
        v.push(Op::PushCol(len));
    }
    for &i in &row_idx {
        if i < r {
            for p in plans(c, full) {
                v.push(Op::RemoveRow(i, p));
            }
        } else {
            v.push(Op::RemoveRow(i, Plan { front: 0, back: 0, mode: 0 }));
        }
    }
    for p in plans(c, full) {
        v.push(Op::PopRow(p));
    }
    for &i in &col_idx {
        if i < c {
            for p in plans(r, full) {
                v.push(Op::RemoveCol(i, p));
            }
        } else {
            v.push(Op::RemoveCol(i, Plan { front: 0, back: 0, mode: 0 }));
        }
    }
    for p in plans(r, full) {
        v.push(Op::PopCol(p));
    }
    v
}

fn start_grid(c: usize, r: usize) -> Grid {
    mk_grid(c, r)
}

pub fn cases(f: &mut dyn FnMut(Value) -> bool) {
    let shapes = shapes(3);
    // single operations: both element types, both capacities
    for elem in ["tok", "u32"] {
        for cap in ["exact", "spare"] {
            for &(c, r) in &shapes {
                for op in ops_for(c, r, true) {
                    if !f(json!({"elem": elem, "cap": cap, "shape": [c, r], "ops": [op.to_json()]})) {
                        return;
                    }
                }
            }
        }
    }
    // zero-sized element type: every cell has the same address and Vec capacity is unbounded, so
    // code that compares cell addresses or derives counts from pointer differences goes wrong here
    for &(c, r) in &shapes {
        for op in ops_for(c, r, true) {
            if !f(json!({"elem": "zst", "cap": "exact", "shape": [c, r], "ops": [op.to_json()]})) {
                return;
            }
        }
    }
    for &(c, r) in &shapes {
        for op1 in ops_for(c, r, false) {
            let mut g = start_grid(c, r);
            let _ = model_apply(&mut g, 0, &op1);
            let (c2, r2) = grid_dims(&g);
            for op2 in ops_for(c2, r2, false) {
                if !f(json!({"elem": "zst", "cap": "exact", "shape": [c, r], "ops": [op1.to_json(), op2.to_json()]})) {
                    return;
                }
            }
        }
    }
    // histories of two operations
    for &(c, r) in &shapes {
        for op1 in ops_for(c, r, true) {
            let mut g = start_grid(c, r);
            let _ = model_apply(&mut g, 0, &op1);
            let (c2, r2) = grid_dims(&g);
            for op2 in ops_for(c2, r2, false) {
                if !f(json!({"elem": "tok", "cap": "exact", "shape": [c, r], "ops": [op1.to_json(), op2.to_json()]})) {
                    return;
                }
            }
        }
    }
}

// -------------------------------------------------------------------------------------------------
// Run

fn run_elem<T: Cell>(case: &Value, track_drops: bool) -> Res {
    let (c, r) = (ju(&case["shape"][0]), ju(&case["shape"][1]));
    let ops: Vec<Op> = case["ops"].as_array().unwrap().iter().map(Op::from_json).collect();
    tok::reset();
    let mut model = start_grid(c, r);
    let mut t: TooDee<T> = TooDee::from_vec(c, r, flat(&model).into_iter().map(T::make).collect());
    match js(&case["cap"]) {
        "exact" => t.shrink_to_fit(),
        _ => t.reserve(16),
    }
    let mut any_panic = false;
    for (n, op) in ops.iter().enumerate() {
        let name = format!("op {} {}", n, op.to_json());
        let exp = model_apply(&mut model, n, op);
        let got = catch(|| real_apply(&mut t, n, op));
        let show = |o: &Option<Vec<String>>| match o {
            Some(tr) => format!("ok [{}]", tr.join("; ")),
            None => "panic".to_string(),
        };
        let got_o = got.ok();
        check_str(&name, &show(&exp), &show(&got_o))?;
        shape_invariant(&format!("after {}", name), &t)?;
        if exp.is_some() {
            check_vals(&format!("array after {}", name), &t, &model)?;
        } else {
            // a rejected call: the array must be valid; continue the history from what it holds now
            any_panic = true;
            model = read_vals(&t);
        }
        if track_drops {
            let dd = tok::double_drops();
            if !dd.is_empty() {
                return Err(Fail::new(format!("{}: drops", name), "no token dropped twice", format!("(id,drops)={:?}", dd)));
            }
            // nothing reachable may already be dropped
            for x in t.data() {
                if tok::drop_count(x.ident()) != 0 {
                    return Err(Fail::new(format!("{}: drops", name), "reachable cells are live", format!("cell val {} id {} already dropped", x.val(), x.ident())));
                }
            }
        }
    }
    drop(t);
    if track_drops {
        let dd = tok::double_drops();
        if !dd.is_empty() {
            return Err(Fail::new("final drop accounting", "no token dropped twice", format!("(id,drops)={:?}", dd)));
        }
        if !any_panic {
            let ud = tok::undropped();
            if !ud.is_empty() {
                return Err(Fail::new("final drop accounting", "every token dropped exactly once", format!("never dropped: ids {:?} of {}", ud, tok::created())));
            }
        }
    }
    Ok(())
}

// -------------------------------------------------------------------------------------------------
// Zero-sized cells: no values to compare, so the oracle is panic behaviour, dimensions, drain
// lengths and the balance of constructions against destructor runs.

thread_local! {
    static ZST_MADE: std::cell::Cell<i64> = std::cell::Cell::new(0);
    static ZST_DROPPED: std::cell::Cell<i64> = std::cell::Cell::new(0);
    /// panic in the k-th destructor run from now (0 = the next one)
    static ZST_PANIC_AT: std::cell::Cell<Option<usize>> = std::cell::Cell::new(None);
}

pub struct Zst;
impl Zst {
    pub fn make() -> Zst {
        ZST_MADE.with(|c| c.set(c.get() + 1));
        Zst
    }
}
impl Drop for Zst {
    fn drop(&mut self) {
        ZST_DROPPED.with(|c| c.set(c.get() + 1));
        let fire = ZST_PANIC_AT.with(|c| match c.get() {
            Some(0) => {
                c.set(None);
                true
            }
            Some(k) => {
                c.set(Some(k - 1));
                false
            }
            None => false,
        });
        if fire && !std::thread::panicking() {
            panic!("injected destructor panic (zero-sized cell)");
        }
    }
}
pub fn zst_reset() {
    ZST_MADE.with(|x| x.set(0));
    ZST_DROPPED.with(|x| x.set(0));
    ZST_PANIC_AT.with(|x| x.set(None));
}
pub fn zst_set_drop_panic(k: Option<usize>) {
    ZST_PANIC_AT.with(|x| x.set(k));
}
pub fn zst_array(c: usize, r: usize) -> TooDee<Zst> {
    TooDee::from_vec(c, r, (0..c * r).map(|_| Zst::make()).collect())
}
pub fn zst_live() -> i64 {
    ZST_MADE.with(|c| c.get()) - ZST_DROPPED.with(|c| c.get())
}

/// What C11 / C12 demand of an array of zero-sized cells after a caught panic or a leak: the shape
/// invariant, no cell held by the array already destroyed (cells may be leaked), still usable, and
/// never more destructor runs than constructions - then or when the array is dropped.
pub fn zst_post_check(variant: &str, mut t: TooDee<Zst>) -> Res {
    zst_set_drop_panic(None);
    shape_invariant(variant, &t)?;
    let held = t.data().len() as i64;
    if zst_live() < held {
        return Err(Fail::new(format!("{}: zero-sized cells held by the array are live", variant), format!("at least {} live cells", held), format!("{} live cells", zst_live())));
    }
    let cols = if t.num_cols() == 0 { 2 } else { t.num_cols() };
    let rows_before = t.num_rows();
    let r = catch(|| {
        let row: Vec<Zst> = (0..cols).map(|_| Zst::make()).collect();
        t.push_row(row);
    });
    if r.is_err() {
        return Err(Fail::new(format!("{}: push_row afterwards", variant), "no panic", "panic"));
    }
    shape_invariant(&format!("{}, then push_row", variant), &t)?;
    check_eq(&format!("{}: rows after push_row", variant), &(rows_before + 1), &t.num_rows())?;
    let held = t.data().len() as i64;
    if zst_live() < held {
        return Err(Fail::new(format!("{}: zero-sized cells held after push_row are live", variant), format!("at least {} live cells", held), format!("{} live cells", zst_live())));
    }
    drop(t);
    if zst_live() < 0 {
        return Err(Fail::new(format!("{}: dropping the array", variant), "no cell destroyed twice", format!("{} more destructor runs than constructions", -zst_live())));
    }
    Ok(())
}

fn zst_drain<D: DoubleEndedIterator<Item = Zst> + ExactSizeIterator>(mut d: D, plan: &Plan) -> Vec<String> {
    let mut tr = vec![format!("len={}", d.len())];
    for front in plan.steps() {
        let x = if front { d.next() } else { d.next_back() };
        let some = x.is_some();
        drop(x);
        tr.push(format!("{}={} len={}", if front { "next" } else { "next_back" }, some, d.len()));
    }
    match plan.mode {
        3 => tr.push(format!("last={}", d.last().is_some())),
        4 => tr.push(format!("count={}", d.count())),
        _ => {}
    }
    tr
}

/// `next=Some(9001) len=2` -> `next=true len=2`
fn zst_trace(tr: Vec<String>) -> Vec<String> {
    tr.into_iter()
        .map(|s| match (s.find('='), s.find(" len=")) {
            (Some(a), Some(b)) if a < b => format!("{}={}{}", &s[..a], s[a + 1..b].starts_with("Some"), &s[b..]),
            (Some(a), None) if s.starts_with("last=") => format!("last={}", s[a + 1..].starts_with("Some")),
            _ => s,
        })
        .collect()
}

fn zst_apply(t: &mut TooDee<Zst>, op: &Op) -> Vec<String> {
    let mk = |len: usize| -> Vec<Zst> { (0..len).map(|_| Zst::make()).collect() };
    match op {
        Op::InsertRow(i, l) => {
            t.insert_row(*i, mk(*l));
            vec![]
        }
        Op::PushRow(l) => {
            t.push_row(mk(*l));
            vec![]
        }
        Op::InsertCol(i, l) => {
            t.insert_col(*i, mk(*l));
            vec![]
        }
        Op::PushCol(l) => {
            t.push_col(mk(*l));
            vec![]
        }
        Op::RemoveRow(i, p) => zst_drain(t.remove_row(*i), p),
        Op::PopRow(p) => match t.pop_row() {
            None => vec!["None".to_string()],
            Some(d) => zst_drain(d, p),
        },
        Op::RemoveCol(i, p) => zst_drain(t.remove_col(*i), p),
        Op::PopCol(p) => match t.pop_col() {
            None => vec!["None".to_string()],
            Some(d) => zst_drain(d, p),
        },
    }
}

fn run_zst(case: &Value) -> Res {
    let (c, r) = (ju(&case["shape"][0]), ju(&case["shape"][1]));
    let ops: Vec<Op> = case["ops"].as_array().unwrap().iter().map(Op::from_json).collect();
    zst_reset();
    let mut model = start_grid(c, r);
    let mut t: TooDee<Zst> = zst_array(c, r);
    let mut any_panic = false;
    for (n, op) in ops.iter().enumerate() {
        let name = format!("zero-sized cells: op {} {}", n, op.to_json());
        let exp = model_apply(&mut model, n, op).map(zst_trace);
        let got = catch(|| zst_apply(&mut t, op));
        let show = |o: &Option<Vec<String>>| match o {
            Some(tr) => format!("ok [{}]", tr.join("; ")),
            None => "panic".to_string(),
        };
        let got_o = got.ok();
        check_str(&name, &show(&exp), &show(&got_o))?;
        shape_invariant(&format!("after {}", name), &t)?;
        if exp.is_some() {
            check_eq(&format!("dims after {}", name), &grid_dims(&model), &(t.num_cols(), t.num_rows()))?;
        } else {
            any_panic = true;
            let (c2, r2) = (t.num_cols(), t.num_rows());
            model = start_grid(c2, r2);
        }
        let live = zst_live();
        let held = t.data().len() as i64;
        if live < held || (!any_panic && live != held) {
            return Err(Fail::new(
                format!("{}: drops", name),
                format!("{} live cells (constructed minus destroyed) = cells held by the array", held),
                format!("{} live cells", live),
            ));
        }
    }
    drop(t);
    let live = zst_live();
    if live < 0 || (!any_panic && live != 0) {
        return Err(Fail::new("zero-sized cells: final drop accounting", "every cell destroyed exactly once", format!("constructed minus destroyed = {}", live)));
    }
    Ok(())
}

pub fn run(case: &Value) -> Res {
    if js(&case["elem"]) == "zst" {
        return run_zst(case);
    }
    match js(&case["elem"]) {
        "tok" => run_elem::<Tok>(case, true),
        "u32" => run_elem::<u32>(case, false),
        e => panic!("unknown elem {}", e),
    }
}
