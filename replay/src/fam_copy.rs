//! Family `copy`: CopyOps on owned arrays and mutable views. [C14, C04]
use crate::common::*;
use serde_json::{json, Value};
use toodee::{CopyOps, TooDee, TooDeeOps};

fn src_grid(cols: usize, rows: usize) -> Grid {
    if cols == 0 || rows == 0 {
        return Vec::new();
    }
    (0..rows).map(|r| (0..cols).map(|c| (7000 + 100 * r + c) as u32).collect()).collect()
}

pub fn cases(f: &mut dyn FnMut(Value) -> bool) {
    // *_from_slice
    for t in targets(4, 4, true, true) {
        let (w, h) = t.dims();
        let l = w * h;
        let mut lens = vec![0, l.saturating_sub(1), l, l + 1, l + w];
        lens.sort();
        lens.dedup();
        for op in ["copy_from_slice", "clone_from_slice"] {
            for &len in &lens {
                if !f(json!({"op": op, "target": t.to_json(), "len": len})) {
                    return;
                }
            }
        }
    }
    // *_from_toodee
    let mut dests = targets(3, 3, true, false);
    for w in [[1, 1, 4, 4], [0, 0, 5, 5], [2, 0, 5, 2], [4, 4, 5, 5], [5, 5, 5, 5]] {
        dests.push(Target::win((5, 5), w));
    }
    dests.push(Target::owned((4, 4)));
    dests.push(Target::owned((4, 1)));
    dests.push(Target::owned((1, 4)));
    dests.push(Target::nested((5, 5), [1, 1, 5, 5], [1, 1, 3, 3]));
    for t in &dests {
        for op in ["copy_from_toodee", "clone_from_toodee"] {
            for kind in ["owned", "view", "strided"] {
                for (sc, sr) in shapes(4) {
                    if !f(json!({"op": op, "target": t.to_json(), "src_kind": kind, "src": [sc, sr]})) {
                        return;
                    }
                }
            }
        }
    }
    // copy_within
    let mut cw: Vec<Target> = shapes(4).into_iter().map(Target::owned).collect();
    for h in 1..=3 {
        for w in 1..=3 {
            cw.push(Target::win((5, 5), [1, 1, 1 + w, 1 + h]));
        }
    }
    cw.push(Target::win((5, 5), [1, 0, 5, 4]));
    cw.push(Target::win((3, 3), [3, 3, 3, 3]));
    for t in &cw {
        let (w, h) = t.dims();
        for tr in 0..=h + 1 {
            for br in tr..=h + 1 {
                for dr in 0..=h + 1 {
                    for tc in 0..=w + 1 {
                        for bc in tc..=w + 1 {
                            for dc in 0..=w + 1 {
                                if !f(json!({"op": "copy_within", "target": t.to_json(), "src": [tc, tr, bc, br], "dest": [dc, dr]})) {
                                    return;
                                }
                            }
                        }
                    }
                }
            }
        }
        // reversed rectangles
        if w > 0 {
            for (src, dest) in [([1, 0, 0, h], [0, 0]), ([0, 1, w, 0], [0, 0]), ([w, h, 0, 0], [0, 0])] {
                if !f(json!({"op": "copy_within", "target": t.to_json(), "src": src, "dest": dest})) {
                    return;
                }
            }
            // huge values (non-empty source rectangle)
            for x in huge() {
                for (src, dest) in [([0, 0, 1, 1], [x, 0]), ([0, 0, 1, 1], [0, x]), ([0, 0, x, 1], [0, 0]), ([0, 0, 1, x], [0, 0]), ([x, 0, x, 1], [0, 0]), ([0, 0, w, h], [x, x])] {
                    if !f(json!({"op": "copy_within", "target": t.to_json(), "src": src, "dest": dest})) {
                        return;
                    }
                }
            }
        }
    }
}

pub fn run(case: &Value) -> Res {
    let op = js(&case["op"]);
    let t = Target::from_json(&case["target"]);
    let model = mk_grid(t.shape.0, t.shape.1);
    let rect = t.rect();
    let (_, _, w, h) = rect;
    let mut sub = sub_grid(&model, rect);
    let mut p = to_toodee(&model);
    let expect_ok: bool;
    let got: Result<(), ()>;
    match op {
        "copy_from_slice" | "clone_from_slice" => {
            let len = ju(&case["len"]);
            let src: Vec<u32> = (0..len).map(|i| 5000 + i as u32).collect();
            expect_ok = len == w * h;
            if expect_ok {
                for r in 0..h {
                    for c in 0..w {
                        sub[r][c] = src[r * w + c];
                    }
                }
            }
            got = if op == "copy_from_slice" {
                catch(|| with_mut_target!(&mut p, &t.wins, |x| x.copy_from_slice(&src)))
            } else {
                catch(|| with_mut_target!(&mut p, &t.wins, |x| x.clone_from_slice(&src)))
            };
        }
        "copy_from_toodee" | "clone_from_toodee" => {
            let (sc, sr) = (ju(&case["src"][0]), ju(&case["src"][1]));
            let kind = js(&case["src_kind"]);
            let sg = src_grid(sc, sr);
            expect_ok = (sc, sr) == (w, h);
            if expect_ok {
                sub = sg.clone();
            }
            let copy = op == "copy_from_toodee";
            got = match kind {
                "owned" => {
                    let s = to_toodee(&sg);
                    if copy {
                        catch(|| with_mut_target!(&mut p, &t.wins, |x| x.copy_from_toodee(&s)))
                    } else {
                        catch(|| with_mut_target!(&mut p, &t.wins, |x| x.clone_from_toodee(&s)))
                    }
                }
                "view" => {
                    let s = to_toodee(&sg);
                    let v = s.view((0, 0), (sc, sr));
                    if copy {
                        catch(|| with_mut_target!(&mut p, &t.wins, |x| x.copy_from_toodee(&v)))
                    } else {
                        catch(|| with_mut_target!(&mut p, &t.wins, |x| x.clone_from_toodee(&v)))
                    }
                }
                "strided" => {
                    // the source cells sit inside a larger parent filled with a guard value
                    let (pc, pr) = (sc + 2, sr + 1);
                    let mut big: TooDee<u32> = TooDee::init(pc, pr, 66_666u32);
                    for r in 0..sr {
                        for c in 0..sc {
                            big[(c + 1, r)] = sg[r][c];
                        }
                    }
                    let v = if sc == 0 { big.view((1, 1), (1, 1)) } else { big.view((1, 0), (1 + sc, sr)) };
                    if copy {
                        catch(|| with_mut_target!(&mut p, &t.wins, |x| x.copy_from_toodee(&v)))
                    } else {
                        catch(|| with_mut_target!(&mut p, &t.wins, |x| x.clone_from_toodee(&v)))
                    }
                }
                _ => panic!("unknown source kind {}", kind),
            };
        }
        "copy_within" => {
            let s = jvec(&case["src"]);
            let d = jvec(&case["dest"]);
            let (tc, tr, bc, br) = (s[0], s[1], s[2], s[3]);
            let fits = tc <= bc && tr <= br && bc <= w && br <= h && {
                let (cols, rows) = (bc - tc, br - tr);
                (d[0] as u128 + cols as u128) <= w as u128 && (d[1] as u128 + rows as u128) <= h as u128
            };
            expect_ok = fits;
            if fits {
                let old = sub.clone();
                for r in 0..br - tr {
                    for c in 0..bc - tc {
                        sub[d[1] + r][d[0] + c] = old[tr + r][tc + c];
                    }
                }
            }
            got = catch(|| with_mut_target!(&mut p, &t.wins, |x| x.copy_within(((tc, tr), (bc, br)), (d[0], d[1]))));
        }
        _ => panic!("unknown copy op {}", op),
    }
    check_panic(op, !expect_ok, got.is_err())?;
    let mut exp_parent = model.clone();
    if expect_ok {
        put_sub_grid(&mut exp_parent, rect, &sub);
        check_parent(&format!("whole parent after {}", op), &p, &exp_parent)
    } else if op == "copy_within" || op.ends_with("_slice") || true {
        // a rejected call must not have written anything
        check_parent(&format!("whole parent after rejected {}", op), &p, &exp_parent)
    } else {
        Ok(())
    }
}
