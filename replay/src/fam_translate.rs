//! Family `translate`: translate_with_wrap, flip_rows, flip_cols. [C15, C04]
use crate::common::*;
use crate::fam_swapfill::Third;
use serde_json::{json, Value};
use toodee::{TooDeeOpsMut, TranslateOps};

fn emit_target(f: &mut dyn FnMut(Value) -> bool, recv: &str, t: &Target) -> bool {
    let (w, h) = t.dims();
    let tj = t.to_json();
    for mr in 0..=h + 1 {
        for mc in 0..=w + 1 {
            if !f(json!({"recv": recv, "target": tj, "op": "translate_with_wrap", "mid": [mc, mr]})) {
                return false;
            }
        }
    }
    for x in huge() {
        for mid in [[x, 0], [0, x], [x, x]] {
            if !f(json!({"recv": recv, "target": tj, "op": "translate_with_wrap", "mid": mid})) {
                return false;
            }
        }
    }
    for op in ["flip_rows", "flip_cols"] {
        if !f(json!({"recv": recv, "target": tj, "op": op})) {
            return false;
        }
    }
    true
}

pub fn cases(f: &mut dyn FnMut(Value) -> bool) {
    let mut ts = targets(5, 4, true, true);
    for h in 1..=5 {
        for w in 1..=5 {
            ts.push(Target::win((7, 7), [1, 1, 1 + w, 1 + h]));
        }
    }
    for w in nonzero_windows(5, 5) {
        ts.push(Target::win((5, 5), w));
    }
    ts.push(Target::owned((6, 6)));
    ts.push(Target::owned((6, 4)));
    ts.push(Target::owned((4, 6)));
    for t in &ts {
        if !emit_target(f, "direct", t) {
            return;
        }
    }
    for t in targets(5, 2, false, false) {
        if !emit_target(f, "third", &t) {
            return;
        }
    }
}

fn apply<X: TooDeeOpsMut<u32>>(x: &mut X, op: &str, mid: (usize, usize)) {
    match op {
        "translate_with_wrap" => x.translate_with_wrap(mid),
        "flip_rows" => x.flip_rows(),
        "flip_cols" => x.flip_cols(),
        _ => panic!("unknown op {}", op),
    }
}

pub fn run(case: &Value) -> Res {
    let recv = js(&case["recv"]);
    let t = Target::from_json(&case["target"]);
    let op = js(&case["op"]);
    let model = mk_grid(t.shape.0, t.shape.1);
    let rect = t.rect();
    let (_, _, w, h) = rect;
    let old = sub_grid(&model, rect);
    let mut mid = (0, 0);
    let new: Option<Grid> = match op {
        "translate_with_wrap" => {
            mid = (ju(&case["mid"][0]), ju(&case["mid"][1]));
            if mid.0 <= w && mid.1 <= h {
                Some((0..h).map(|r| (0..w).map(|c| old[(r + mid.1) % h][(c + mid.0) % w]).collect()).collect())
            } else {
                None
            }
        }
        "flip_rows" => Some((0..h).map(|r| old[h - 1 - r].clone()).collect()),
        "flip_cols" => Some((0..h).map(|r| (0..w).map(|c| old[r][w - 1 - c]).collect()).collect()),
        _ => panic!("unknown op {}", op),
    };
    let mut exp_parent = model.clone();
    if let Some(n) = &new {
        put_sub_grid(&mut exp_parent, rect, n);
    }
    let mut p = to_toodee(&model);
    let got = match recv {
        "direct" => catch(|| with_mut_target!(&mut p, &t.wins, |x| apply(x, op, mid))),
        "third" => catch(|| {
            with_mut_target!(&mut p, &t.wins, |x| {
                let mut th = Third(x);
                apply(&mut th, op, mid)
            })
        }),
        _ => panic!("unknown receiver {}", recv),
    };
    check_panic(op, new.is_none(), got.is_err())?;
    check_parent(&format!("whole parent after {}", op), &p, &exp_parent)
}
