//! Families `rows`, `cols`, `cells`: iterator operation sequences against a VecDeque model. [C08, C09, C10]
use crate::common::*;
use crate::itermodel::*;
use serde_json::{json, Value};
use toodee::{Col, ColMut, TooDeeOps};

const YIELD_MARK: u32 = 1_000_000;
const INDEX_MARK: u32 = 50_000_000;

fn uniq(mut v: Vec<usize>) -> Vec<usize> {
    let mut out = Vec::new();
    for x in v.drain(..) {
        if !out.contains(&x) {
            out.push(x);
        }
    }
    out
}

fn spec_for_len(l: usize, later_max: usize, with_index: bool) -> SeqSpec {
    let mut n_full: Vec<usize> = (0..=l + 1).collect();
    n_full.extend(huge());
    let mut n_first3: Vec<usize> = (0..=l).collect();
    n_first3.extend(huge_few());
    let mut n_later: Vec<usize> = (0..=later_max).collect();
    n_later.extend(huge_few());
    let (idx_full, idx_later) = if with_index {
        let mut a: Vec<usize> = (0..=l + 1).collect();
        a.extend(huge());
        let mut b: Vec<usize> = (0..l.max(1)).collect();
        b.extend(huge_few());
        (a, b)
    } else {
        (vec![], vec![])
    };
    SeqSpec { n_full: uniq(n_full), n_first3: uniq(n_first3), n_later: uniq(n_later), idx_full: uniq(idx_full), idx_later: uniq(idx_later) }
}

fn emit_seqs(
    f: &mut dyn FnMut(Value) -> bool,
    iter: &str,
    t: &Target,
    col: Option<usize>,
    spec: &SeqSpec,
    min_len: usize,
    max_len: usize,
) -> bool {
    let tj = t.to_json();
    sequences(spec, max_len, &mut |seq: &[ItOp]| {
        if seq.len() < min_len {
            return true;
        }
        let mut c = json!({"iter": iter, "target": tj, "seq": seq_to_json(seq)});
        if let Some(cc) = col {
            c["col"] = json!(cc);
        }
        f(c)
    })
}

/// Breadth set: owned shapes up to 4x4, every window of parents up to 3x3, every non-zero window of
/// the larger parents up to 5x5, and the nested windows.
fn breadth_targets() -> Vec<Target> {
    let mut v = targets(4, 3, true, false);
    for r in 1..=5 {
        for c in 1..=5 {
            if r <= 3 && c <= 3 {
                continue;
            }
            for w in nonzero_windows(c, r) {
                v.push(Target::win((c, r), w));
            }
        }
    }
    v.extend(nested_targets());
    v
}

// ------------------------------------------------------------------------------------------ rows

pub fn rows_cases(f: &mut dyn FnMut(Value) -> bool) {
    for t in breadth_targets() {
        let (_, h) = t.dims();
        let spec = spec_for_len(h, h.max(1) - 1, false);
        if !emit_seqs(f, "rows", &t, None, &spec, 1, 1) {
            return;
        }
    }
    let mut deep: Vec<Target> = shapes(4).into_iter().map(Target::owned).collect();
    for w in nonzero_windows(3, 3) {
        deep.push(Target::win((3, 3), w));
    }
    for w in [[1, 0, 4, 4], [0, 0, 5, 4], [2, 1, 3, 3], [0, 3, 5, 4], [4, 0, 5, 4]] {
        deep.push(Target::win((5, 4), w));
    }
    deep.push(Target::nested((5, 5), [1, 1, 5, 5], [1, 1, 3, 4]));
    deep.push(Target::nested((4, 4), [0, 1, 4, 4], [2, 0, 4, 3]));
    for t in deep {
        let (_, h) = t.dims();
        let spec = spec_for_len(h, h.max(1) - 1, false);
        if !emit_seqs(f, "rows", &t, None, &spec, 2, 3) {
            return;
        }
    }
}

// ------------------------------------------------------------------------------------------ cols

pub fn cols_cases(f: &mut dyn FnMut(Value) -> bool) {
    // col(c) with c out of range
    for t in targets(4, 4, true, true) {
        let (w, _) = t.dims();
        let mut cs = vec![w, w + 1];
        cs.extend(huge());
        for c in cs {
            if !f(json!({"iter": "cols", "target": t.to_json(), "col": c, "seq": []})) {
                return;
            }
        }
    }
    // breadth: every column, length-1 sequences
    let mut breadth = targets(4, 4, false, true);
    for t in breadth.drain(..) {
        let (w, h) = t.dims();
        let spec = spec_for_len(h, h.max(1) - 1, true);
        for c in 0..w {
            if !emit_seqs(f, "cols", &t, Some(c), &spec, 1, 1) {
                return;
            }
        }
    }
    for win in nonzero_windows(5, 5) {
        let t = Target::win((5, 5), win);
        let (w, h) = t.dims();
        let spec = spec_for_len(h, h.max(1) - 1, true);
        for c in uniq(vec![0, w - 1]) {
            if !emit_seqs(f, "cols", &t, Some(c), &spec, 1, 1) {
                return;
            }
        }
    }
    // deep: length 2 and 3
    let mut deep: Vec<(Target, usize)> = Vec::new();
    for (c, r) in shapes(4) {
        if c == 3 || c == 0 {
            continue;
        }
        for col in uniq(vec![0, c - 1]) {
            deep.push((Target::owned((c, r)), col));
        }
    }
    for sr in 0..3 {
        for er in sr + 1..=3 {
            deep.push((Target::win((3, 3), [0, sr, 3, er]), 0));
            deep.push((Target::win((3, 3), [0, sr, 3, er]), 2));
            deep.push((Target::win((3, 3), [1, sr, 2, er]), 0));
            deep.push((Target::win((3, 3), [1, sr, 3, er]), 1));
        }
    }
    deep.push((Target::win((5, 4), [1, 0, 4, 4]), 1));
    deep.push((Target::win((5, 4), [4, 1, 5, 4]), 0));
    deep.push((Target::win((5, 4), [0, 0, 5, 3]), 4));
    deep.push((Target::nested((5, 5), [1, 1, 5, 5], [1, 1, 3, 4]), 1));
    for (t, col) in deep {
        let (_, h) = t.dims();
        let spec = spec_for_len(h, h.max(1) - 1, true);
        if !emit_seqs(f, "cols", &t, Some(col), &spec, 2, 3) {
            return;
        }
    }
}

// ----------------------------------------------------------------------------------------- cells

fn cells_spec(t: &Target) -> SeqSpec {
    let (w, h) = t.dims();
    let l = w * h;
    spec_for_len(l, l.min(2 * w + 1), false)
}

pub fn cells_cases(f: &mut dyn FnMut(Value) -> bool) {
    for t in breadth_targets() {
        if !emit_seqs(f, "cells", &t, None, &cells_spec(&t), 1, 1) {
            return;
        }
    }
    // length 2
    let mut mid: Vec<Target> = shapes(4).into_iter().map(Target::owned).collect();
    for w in nonzero_windows(3, 3) {
        mid.push(Target::win((3, 3), w));
    }
    for w in [[1, 0, 4, 4], [0, 0, 5, 4], [2, 1, 3, 3], [0, 3, 5, 4], [4, 0, 5, 4], [1, 1, 4, 3]] {
        mid.push(Target::win((5, 4), w));
    }
    for t in mid {
        if !emit_seqs(f, "cells", &t, None, &cells_spec(&t), 2, 2) {
            return;
        }
    }
    // length 3
    let mut deep: Vec<Target> = shapes(3).into_iter().map(Target::owned).collect();
    deep.push(Target::owned((4, 2)));
    deep.push(Target::owned((2, 4)));
    deep.push(Target::win((4, 4), [1, 1, 3, 3]));
    deep.push(Target::win((5, 3), [1, 0, 4, 3]));
    for w in [[0, 0, 2, 2], [1, 0, 3, 2], [0, 1, 2, 3], [1, 1, 3, 3]] {
        deep.push(Target::win((3, 3), w));
    }
    deep.push(Target::win((5, 5), [1, 1, 4, 3]));
    deep.push(Target::win((5, 5), [3, 3, 5, 5]));
    deep.push(Target::win((2, 3), [0, 0, 1, 3]));
    deep.push(Target::win((3, 2), [0, 1, 3, 2]));
    deep.push(Target::nested((5, 5), [1, 1, 5, 5], [1, 1, 3, 3]));
    for t in deep {
        if !emit_seqs(f, "cells", &t, None, &cells_spec(&t), 3, 3) {
            return;
        }
    }
}

// ------------------------------------------------------------------------------------------- run

fn no_index<I>(_: &mut I, _: usize) -> String {
    "n/a".to_string()
}

/// Applies the marks of a mutable run to the model: yielded item k (1-based) gets +k*YIELD_MARK on each
/// of its cells, an indexed cell gets +INDEX_MARK.
fn expected_parent(
    model: &Grid,
    rect: (usize, usize, usize, usize),
    yielded: &[usize],
    indexed: &[usize],
    cells_of: &dyn Fn(usize) -> Vec<(usize, usize)>,
) -> Grid {
    let mut g = model.clone();
    let (oc, or, _, _) = rect;
    for id in indexed {
        for (c, r) in cells_of(*id) {
            g[or + r][oc + c] += INDEX_MARK;
        }
    }
    for (k, id) in yielded.iter().enumerate() {
        for (c, r) in cells_of(*id) {
            g[or + r][oc + c] += YIELD_MARK * (k as u32 + 1);
        }
    }
    g
}

fn finish(trace: &mut Vec<String>, r: Result<(), ()>) {
    if r.is_err() {
        trace.push("PANIC".to_string());
    }
}

pub fn run(case: &Value) -> Res {
    let iter = js(&case["iter"]);
    let t = Target::from_json(&case["target"]);
    let seq = seq_from_json(&case["seq"]);
    let model = mk_grid(t.shape.0, t.shape.1);
    let rect = t.rect();
    let (_, _, w, h) = rect;
    let sub = sub_grid(&model, rect);
    let fins: Vec<Fin> = if seq.last().map_or(false, |o| o.is_terminal()) { vec![Fin::Fold] } else { vec![Fin::Fold, Fin::RFold] };

    match iter {
        "rows" => {
            let items: Vec<(usize, String)> = (0..h).map(|i| (i, format!("{:?}", sub[i]))).collect();
            for fin in fins {
                let (mut y, mut ix) = (vec![], vec![]);
                let exp = model_drive(items.clone(), &seq, fin, &mut y, &mut ix, 0);
                // rows() through a shared reference / view
                let parent = to_toodee(&model);
                let mut tr = Vec::new();
                let r = catch(|| with_ref_target!(&parent, &t.wins, |x| drive(x.rows(), &seq, fin, &mut tr, &mut |row: &[u32]| format!("{:?}", row), &mut no_index)));
                finish(&mut tr, r);
                check_trace(&format!("rows() [{:?}]", fin), &exp, &tr)?;
                // rows() on the mutable target
                let mut pm = to_toodee(&model);
                let mut tr = Vec::new();
                let r = catch(|| with_mut_target!(&mut pm, &t.wins, |x| drive(x.rows(), &seq, fin, &mut tr, &mut |row: &[u32]| format!("{:?}", row), &mut no_index)));
                finish(&mut tr, r);
                check_trace(&format!("rows() on mutable receiver [{:?}]", fin), &exp, &tr)?;
                check_parent("parent after rows()", &pm, &model)?;
                // rows_mut()
                let mut pm = to_toodee(&model);
                let mut tr = Vec::new();
                let mut k = 0u32;
                let r = catch(|| {
                    with_mut_target!(&mut pm, &t.wins, |x| drive(
                        x.rows_mut(),
                        &seq,
                        fin,
                        &mut tr,
                        &mut |row: &mut [u32]| {
                            k += 1;
                            let s = format!("{:?}", row);
                            for v in row.iter_mut() {
                                *v += YIELD_MARK * k;
                            }
                            s
                        },
                        &mut no_index
                    ))
                });
                finish(&mut tr, r);
                check_trace(&format!("rows_mut() [{:?}]", fin), &exp, &tr)?;
                let eg = expected_parent(&model, rect, &y, &ix, &|id| (0..w).map(|c| (c, id)).collect());
                check_parent(&format!("parent after rows_mut() [{:?}]", fin), &pm, &eg)?;
            }
            Ok(())
        }
        "cols" => {
            let c = ju(&case["col"]);
            if c >= w {
                let parent = to_toodee(&model);
                let r = catch(|| with_ref_target!(&parent, &t.wins, |x| x.col(c).len()));
                check_panic("col(c) out of range", true, r.is_err())?;
                let mut pm = to_toodee(&model);
                let r = catch(|| with_mut_target!(&mut pm, &t.wins, |x| x.col(c).len()));
                check_panic("col(c) out of range (mutable receiver)", true, r.is_err())?;
                let r = catch(|| with_mut_target!(&mut pm, &t.wins, |x| x.col_mut(c).len()));
                check_panic("col_mut(c) out of range", true, r.is_err())?;
                check_parent("parent after out-of-range col", &pm, &model)?;
                return Ok(());
            }
            let items: Vec<(usize, String)> = (0..h).map(|i| (i, format!("{}", sub[i][c]))).collect();
            for fin in fins {
                let (mut y, mut ix) = (vec![], vec![]);
                let exp = model_drive(items.clone(), &seq, fin, &mut y, &mut ix, 0);
                let mut idx_ro = |it: &mut Col<'_, u32>, i: usize| match catch(|| it[i]) {
                    Ok(v) => format!("{}", v),
                    Err(()) => "panic".to_string(),
                };
                let parent = to_toodee(&model);
                let mut tr = Vec::new();
                let r = catch(|| with_ref_target!(&parent, &t.wins, |x| drive(x.col(c), &seq, fin, &mut tr, &mut |v: &u32| format!("{}", v), &mut idx_ro)));
                finish(&mut tr, r);
                check_trace(&format!("col(c) [{:?}]", fin), &exp, &tr)?;
                let mut pm = to_toodee(&model);
                let mut tr = Vec::new();
                let r = catch(|| with_mut_target!(&mut pm, &t.wins, |x| drive(x.col(c), &seq, fin, &mut tr, &mut |v: &u32| format!("{}", v), &mut idx_ro)));
                finish(&mut tr, r);
                check_trace(&format!("col(c) on mutable receiver [{:?}]", fin), &exp, &tr)?;
                check_parent("parent after col()", &pm, &model)?;
                // col_mut
                let (mut y, mut ix) = (vec![], vec![]);
                let exp = model_drive(items.clone(), &seq, fin, &mut y, &mut ix, INDEX_MARK);
                let mut idx_rw = |it: &mut ColMut<'_, u32>, i: usize| match catch(|| {
                    let v = it[i];
                    it[i] = v + INDEX_MARK;
                    v
                }) {
                    Ok(v) => format!("{}", v),
                    Err(()) => "panic".to_string(),
                };
                let mut pm = to_toodee(&model);
                let mut tr = Vec::new();
                let mut k = 0u32;
                let r = catch(|| {
                    with_mut_target!(&mut pm, &t.wins, |x| drive(
                        x.col_mut(c),
                        &seq,
                        fin,
                        &mut tr,
                        &mut |v: &mut u32| {
                            k += 1;
                            let s = format!("{}", v);
                            *v += YIELD_MARK * k;
                            s
                        },
                        &mut idx_rw
                    ))
                });
                finish(&mut tr, r);
                check_trace(&format!("col_mut(c) [{:?}]", fin), &exp, &tr)?;
                let eg = expected_parent(&model, rect, &y, &ix, &|id| vec![(c, id)]);
                check_parent(&format!("parent after col_mut(c) [{:?}]", fin), &pm, &eg)?;
            }
            Ok(())
        }
        "cells" => {
            let mut items: Vec<(usize, String)> = Vec::new();
            for r in 0..h {
                for c in 0..w {
                    items.push((r * w + c, format!("{}", sub[r][c])));
                }
            }
            for fin in fins {
                let (mut y, mut ix) = (vec![], vec![]);
                let exp = model_drive(items.clone(), &seq, fin, &mut y, &mut ix, 0);
                let eg = expected_parent(&model, rect, &y, &ix, &|id| vec![(id % w, id / w)]);
                let parent = to_toodee(&model);
                // cells()
                let mut tr = Vec::new();
                let r = catch(|| with_ref_target!(&parent, &t.wins, |x| drive(x.cells(), &seq, fin, &mut tr, &mut |v: &u32| format!("{}", v), &mut no_index)));
                finish(&mut tr, r);
                check_trace(&format!("cells() [{:?}]", fin), &exp, &tr)?;
                // (&x).into_iter()
                let mut tr = Vec::new();
                let r = catch(|| with_ref_target!(&parent, &t.wins, |x| drive(x.into_iter(), &seq, fin, &mut tr, &mut |v: &u32| format!("{}", v), &mut no_index)));
                finish(&mut tr, r);
                check_trace(&format!("(&x).into_iter() [{:?}]", fin), &exp, &tr)?;
                // cells() on the mutable receiver
                let mut pm = to_toodee(&model);
                let mut tr = Vec::new();
                let r = catch(|| with_mut_target!(&mut pm, &t.wins, |x| drive(x.cells(), &seq, fin, &mut tr, &mut |v: &u32| format!("{}", v), &mut no_index)));
                finish(&mut tr, r);
                check_trace(&format!("cells() on mutable receiver [{:?}]", fin), &exp, &tr)?;
                check_parent("parent after cells()", &pm, &model)?;
                // cells_mut()
                let mut pm = to_toodee(&model);
                let mut tr = Vec::new();
                let mut k = 0u32;
                let r = catch(|| {
                    with_mut_target!(&mut pm, &t.wins, |x| drive(
                        x.cells_mut(),
                        &seq,
                        fin,
                        &mut tr,
                        &mut |v: &mut u32| {
                            k += 1;
                            let s = format!("{}", v);
                            *v += YIELD_MARK * k;
                            s
                        },
                        &mut no_index
                    ))
                });
                finish(&mut tr, r);
                check_trace(&format!("cells_mut() [{:?}]", fin), &exp, &tr)?;
                check_parent(&format!("parent after cells_mut() [{:?}]", fin), &pm, &eg)?;
                // (&mut x).into_iter()
                let mut pm = to_toodee(&model);
                let mut tr = Vec::new();
                let mut k = 0u32;
                let r = catch(|| {
                    with_mut_target!(&mut pm, &t.wins, |x| drive(
                        x.into_iter(),
                        &seq,
                        fin,
                        &mut tr,
                        &mut |v: &mut u32| {
                            k += 1;
                            let s = format!("{}", v);
                            *v += YIELD_MARK * k;
                            s
                        },
                        &mut no_index
                    ))
                });
                finish(&mut tr, r);
                check_trace(&format!("(&mut x).into_iter() [{:?}]", fin), &exp, &tr)?;
                check_parent(&format!("parent after (&mut x).into_iter() [{:?}]", fin), &pm, &eg)?;
            }
            Ok(())
        }
        _ => panic!("unknown iterator family {}", iter),
    }
}
