//! Families `leak` and `leak_drainrow`: mem::forget of drains, iterators and views. [C12]
use crate::common::*;
use crate::fam_insrem::check_vals;
use crate::fam_panicsafe::post_check;
use crate::tok::{self, Tok};
use serde_json::{json, Value};
use std::mem;
use toodee::{TooDee, TooDeeOps, TooDeeOpsMut};

fn tok_array(c: usize, r: usize) -> TooDee<Tok> {
    let g = mk_grid(c, r);
    TooDee::from_vec(c, r, flat(&g).into_iter().map(Tok::new).collect())
}

fn drain_cases(f: &mut dyn FnMut(Value) -> bool, ops: &[&str]) {
    for cap in ["exact", "spare"] {
        for (c, r) in shapes(3) {
            for op in ops {
                let (n_lines, line_len) = if op.ends_with("col") { (c, r) } else { (r, c) };
                if n_lines == 0 {
                    continue;
                }
                let idxs: Vec<usize> = if op.starts_with("pop") { vec![n_lines - 1] } else { (0..n_lines).collect() };
                for i in idxs {
                    for front in 0..=line_len {
                        for back in 0..=line_len - front {
                            if !f(json!({"scenario": "drain", "cap": cap, "op": op, "shape": [c, r], "index": i, "front": front, "back": back})) {
                                return;
                            }
                        }
                    }
                }
            }
        }
    }
}

pub fn cases_drainrow(f: &mut dyn FnMut(Value) -> bool) {
    drain_cases(f, &["remove_row", "pop_row"]);
}

pub fn cases(f: &mut dyn FnMut(Value) -> bool) {
    drain_cases(f, &["remove_col", "pop_col"]);
    // the same with zero-sized cells (no addresses to tell cells apart, only counts)
    for (c, r) in shapes(4) {
        for op in ["remove_col", "pop_col"] {
            if c == 0 {
                continue;
            }
            let idxs: Vec<usize> = if op == "pop_col" { vec![c - 1] } else { (0..c).collect() };
            for i in idxs {
                for front in 0..=r {
                    for back in 0..=r - front {
                        if !f(json!({"scenario": "zdrain", "op": op, "shape": [c, r], "index": i, "front": front, "back": back})) {
                            return;
                        }
                    }
                }
            }
        }
    }
    for (c, r) in shapes(3) {
        for kind in ["rows", "rows_mut", "col", "col_mut", "cells", "cells_mut", "into_iter_ref", "into_iter_mut", "into_iter"] {
            let len = match kind {
                "rows" | "rows_mut" => r,
                "col" | "col_mut" => r,
                _ => c * r,
            };
            let cols: Vec<usize> = if kind.starts_with("col") { (0..c).collect() } else { vec![0] };
            for col in cols {
                for front in 0..=len {
                    for back in 0..=len - front {
                        if !f(json!({"scenario": "iter", "kind": kind, "shape": [c, r], "col": col, "front": front, "back": back})) {
                            return;
                        }
                    }
                }
            }
        }
        for kind in ["view", "view_mut", "view_mut_nested", "view_rows_mut"] {
            for w in all_windows(c, r) {
                if !f(json!({"scenario": "view", "kind": kind, "shape": [c, r], "win": w})) {
                    return;
                }
            }
        }
    }
}

pub fn run(case: &Value) -> Res {
    tok::reset();
    let (c, r) = (ju(&case["shape"][0]), ju(&case["shape"][1]));
    if js(&case["scenario"]) == "zdrain" {
        use crate::fam_insrem::{zst_array, zst_post_check, zst_reset};
        zst_reset();
        let mut t = zst_array(c, r);
        let op = js(&case["op"]);
        let index = ju(&case["index"]);
        let (front, back) = (ju(&case["front"]), ju(&case["back"]));
        let res = catch(|| {
            let mut d = if op == "remove_col" { t.remove_col(index) } else { t.pop_col().unwrap() };
            let mut taken = Vec::new();
            for _ in 0..front {
                taken.push(d.next());
            }
            for _ in 0..back {
                taken.push(d.next_back());
            }
            mem::forget(d);
            drop(taken);
        });
        if res.is_err() {
            return Err(Fail::new(op, "no panic", "panic"));
        }
        return zst_post_check(&format!("zero-sized cells: after leaking the drain of {}", op), t);
    }
    let model = mk_grid(c, r);
    let mut t = tok_array(c, r);
    match js(&case["scenario"]) {
        "drain" => {
            match js(&case["cap"]) {
                "exact" => t.shrink_to_fit(),
                _ => t.reserve(16),
            }
            let op = js(&case["op"]);
            let index = ju(&case["index"]);
            let (front, back) = (ju(&case["front"]), ju(&case["back"]));
            macro_rules! leak {
                ($d:expr) => {{
                    let mut d = $d;
                    let mut taken = Vec::new();
                    for _ in 0..front {
                        taken.push(d.next());
                    }
                    for _ in 0..back {
                        taken.push(d.next_back());
                    }
                    mem::forget(d);
                    drop(taken);
                }};
            }
            let res = catch(|| match op {
                "remove_col" => leak!(t.remove_col(index)),
                "pop_col" => leak!(t.pop_col().unwrap()),
                "remove_row" => leak!(t.remove_row(index)),
                "pop_row" => leak!(t.pop_row().unwrap()),
                _ => panic!("unknown op {}", op),
            });
            if res.is_err() {
                return Err(Fail::new(op, "no panic", "panic"));
            }
            post_check(&format!("after leaking the drain of {}", op), t, true)
        }
        "iter" => {
            let kind = js(&case["kind"]);
            let col = ju(&case["col"]);
            let (front, back) = (ju(&case["front"]), ju(&case["back"]));
            macro_rules! leak {
                ($it:expr) => {{
                    let mut it = $it;
                    for _ in 0..front {
                        let _ = it.next();
                    }
                    for _ in 0..back {
                        let _ = it.next_back();
                    }
                    mem::forget(it);
                }};
            }
            if kind == "into_iter" {
                let res = catch(move || {
                    let mut it = t.into_iter();
                    let mut taken = Vec::new();
                    for _ in 0..front {
                        taken.push(it.next());
                    }
                    for _ in 0..back {
                        taken.push(it.next_back());
                    }
                    mem::forget(it);
                    drop(taken);
                });
                if res.is_err() {
                    return Err(Fail::new("into_iter", "no panic", "panic"));
                }
                let dd = tok::double_drops();
                if !dd.is_empty() {
                    return Err(Fail::new("into_iter leaked: drops", "no token dropped twice", format!("{:?}", dd)));
                }
                return Ok(());
            }
            let res = catch(|| match kind {
                "rows" => leak!(t.rows()),
                "rows_mut" => leak!(t.rows_mut()),
                "col" => leak!(t.col(col)),
                "col_mut" => leak!(t.col_mut(col)),
                "cells" => leak!(t.cells()),
                "cells_mut" => leak!(t.cells_mut()),
                "into_iter_ref" => leak!((&t).into_iter()),
                "into_iter_mut" => leak!((&mut t).into_iter()),
                _ => panic!("unknown kind {}", kind),
            });
            if res.is_err() {
                return Err(Fail::new(kind, "no panic", "panic"));
            }
            check_vals(&format!("array after leaking {}", kind), &t, &model)?;
            post_check(&format!("after leaking {}", kind), t, true)
        }
        "view" => {
            let kind = js(&case["kind"]);
            let w = jwin(&case["win"]);
            let res = catch(|| match kind {
                "view" => {
                    let v = t.view((w[0], w[1]), (w[2], w[3]));
                    mem::forget(v);
                }
                "view_mut" => {
                    let v = t.view_mut((w[0], w[1]), (w[2], w[3]));
                    mem::forget(v);
                }
                "view_mut_nested" => {
                    let mut v = t.view_mut((w[0], w[1]), (w[2], w[3]));
                    let (vc, vr) = (v.num_cols(), v.num_rows());
                    let v2 = v.view_mut((0, 0), (vc, vr));
                    mem::forget(v2);
                    mem::forget(v);
                }
                "view_rows_mut" => {
                    let mut v = t.view_mut((w[0], w[1]), (w[2], w[3]));
                    let mut it = v.rows_mut();
                    let _ = it.next();
                    mem::forget(it);
                    let mut it2 = v.cells_mut();
                    let _ = it2.next_back();
                    mem::forget(it2);
                    mem::forget(v);
                }
                _ => panic!("unknown kind {}", kind),
            });
            if res.is_err() {
                return Err(Fail::new(kind, "no panic", "panic"));
            }
            check_vals(&format!("array after leaking {}", kind), &t, &model)?;
            post_check(&format!("after leaking {}", kind), t, true)
        }
        s => panic!("unknown scenario {}", s),
    }
}
