//! Family `deser`: documents from a grammar; Err or a faithful array, never a panic. [C19]
use crate::common::*;
use crate::fam_insrem::shape_invariant;
use serde_json::{json, Value};
use toodee::{TooDee, TooDeeOps};

const TRANSPORTS: [&str; 5] = ["str", "value", "slice", "reader", "in_place"];
const NAMES: [&str; 4] = ["num_cols", "num_rows", "data", "extra"];

fn dim_values() -> Vec<&'static str> {
    vec!["0", "1", "2", "3", "4294967296", "9223372036854775808", "18446744073709551615", "-1", "1.5", "\"2\"", "null"]
}

fn data_array(len: usize) -> String {
    let v: Vec<String> = (0..len).map(|i| format!("{}", 10 + i)).collect();
    format!("[{}]", v.join(","))
}

fn emit(f: &mut dyn FnMut(Value) -> bool, fields: &[(String, String)]) -> bool {
    let fj: Vec<Value> = fields.iter().map(|(k, v)| json!([k, v])).collect();
    for tr in TRANSPORTS {
        if !f(json!({"fields": fj, "transport": tr})) {
            return false;
        }
    }
    true
}

pub fn cases(f: &mut dyn FnMut(Value) -> bool) {
    // raw, non-object or odd documents
    // unknown keys that are long and contain multi-byte characters around byte offsets 16 / 32 / 64
    for pad in [15usize, 16, 30, 31, 32, 62, 63, 64] {
        let key: String = format!("{}\u{e9}\u{4e16}tail", "a".repeat(pad));
        for doc in [format!("{{\"{}\":1,\"num_cols\":1,\"num_rows\":1,\"data\":[7]}}", key), format!("{{\"num_cols\":1,\"num_rows\":1,\"data\":[7],\"{}\":1}}", key)] {
            for tr in TRANSPORTS {
                if !f(json!({"raw": doc, "transport": tr})) {
                    return;
                }
            }
        }
    }
    // sequence-form documents (the compact form of the derived Serialize: data, num_rows, num_cols).  The
    // crate rejects them; a version that accepts them must read the fields in that order.
    for doc in ["[[1,2,3,4,5,6],2,3]", "[[7,8,9],3,1]", "[[1,2,3,4],2,2]", "[[],0,0]", "[[1,2],1,1]"] {
        for tr in TRANSPORTS {
            if !f(json!({"raw": doc, "seq": true, "transport": tr})) {
                return;
            }
        }
    }
    for raw in ["null", "5", "\"x\"", "[]", "[2,1,[1,2]]", "[[\"num_cols\",2]]", "{}", "true", "{\"num_cols\":2,\"num_rows\":1,\"data\":[1,2]}garbage", "", "{", "{\"data\":[1,2],\"num_cols\":2,\"num_rows\":1,}"] {
        for tr in TRANSPORTS {
            if !f(json!({"raw": raw, "transport": tr})) {
                return;
            }
        }
    }
    // Part A: every sequence of up to 4 fields drawn from the three fields plus an unknown one
    let good = |name: &str, second: bool| -> String {
        match (name, second) {
            ("num_cols", false) => "2".into(),
            ("num_cols", true) => "1".into(),
            ("num_rows", false) => "1".into(),
            ("num_rows", true) => "2".into(),
            ("data", false) => "[10,11]".into(),
            ("data", true) => "[20,21,22]".into(),   // a repeated `data` key of a DIFFERENT length
            (_, _) => "7".into(),
        }
    };
    for len in 0..=4usize {
        let n = 4usize.pow(len as u32);
        for code in 0..n {
            let mut idx = Vec::new();
            let mut x = code;
            for _ in 0..len {
                idx.push(x % 4);
                x /= 4;
            }
            for variant in 0..2 {
                let mut seen = [0usize; 4];
                let mut fields = Vec::new();
                for &i in &idx {
                    // variant 0: duplicates repeat the same value; variant 1: they differ
                    let second = variant == 1 && seen[i] > 0;
                    fields.push((NAMES[i].to_string(), good(NAMES[i], second)));
                    seen[i] += 1;
                }
                if variant == 1 && seen.iter().all(|&s| s <= 1) {
                    continue;
                }
                if !emit(f, &fields) {
                    return;
                }
            }
        }
    }
    // Part A2: a dimension stated twice where the FIRST statement is a value an implementation might
    // use as its "not read yet" marker (0, the maxima); the later one is consistent with the rest
    for marker in ["0", "18446744073709551615", "9223372036854775807", "4294967295"] {
        for (dim, other, okv, otherv) in [("num_cols", "num_rows", "2", "1"), ("num_rows", "num_cols", "1", "2")] {
            let d = |v: &str| (dim.to_string(), v.to_string());
            let o = (other.to_string(), otherv.to_string());
            let data = ("data".to_string(), "[10,11]".to_string());
            let docs = [
                vec![d(marker), d(okv), o.clone(), data.clone()],
                vec![d(marker), o.clone(), d(okv), data.clone()],
                vec![d(marker), o.clone(), data.clone(), d(okv)],
                vec![data.clone(), d(marker), d(okv), o.clone()],
                vec![d(okv), d(marker), o.clone(), data.clone()],
            ];
            for fields in docs.iter() {
                if !emit(f, fields) {
                    return;
                }
            }
        }
    }
    // Part B: the three fields in every order, every dimension value, data around the product
    let orders: [[usize; 3]; 6] = [[0, 1, 2], [0, 2, 1], [1, 0, 2], [1, 2, 0], [2, 0, 1], [2, 1, 0]];
    for dc in dim_values() {
        for dr in dim_values() {
            let p: Option<u128> = match (dc.parse::<u128>(), dr.parse::<u128>()) {
                (Ok(a), Ok(b)) => Some(a * b),
                _ => None,
            };
            let mut datas: Vec<String> = Vec::new();
            match p {
                Some(p) if p <= 12 => {
                    let p = p as usize;
                    let mut lens = vec![0, p.saturating_sub(1), p, p + 1];
                    lens.sort();
                    lens.dedup();
                    for l in lens {
                        datas.push(data_array(l));
                    }
                    // wrong element types at the right length
                    if p > 0 {
                        for bad in ["\"a\"", "1.5", "-1", "null", "[1]", "4294967296"] {
                            let mut v: Vec<String> = (0..p).map(|i| format!("{}", 10 + i)).collect();
                            v[p - 1] = bad.to_string();
                            datas.push(format!("[{}]", v.join(",")));
                        }
                    }
                }
                _ => {
                    datas.push(data_array(0));
                    datas.push(data_array(1));
                    datas.push(data_array(2));
                }
            }
            for non_array in ["5", "\"x\"", "null", "{}", "{\"0\":1}"] {
                datas.push(non_array.to_string());
            }
            for d in &datas {
                for o in &orders {
                    let vals = [dc.to_string(), dr.to_string(), d.clone()];
                    let fields: Vec<(String, String)> = o.iter().map(|&i| (NAMES[i].to_string(), vals[i].clone())).collect();
                    if !emit(f, &fields) {
                        return;
                    }
                }
            }
        }
    }
}

/// The model: `Some((cols, rows, cells))` if the document may (and must) be accepted.
fn model(fields: &[(String, Value)]) -> Option<(usize, usize, Vec<u32>)> {
    if fields.len() != 3 {
        return None;
    }
    let get = |name: &str| -> Option<&Value> {
        let mut it = fields.iter().filter(|(k, _)| k == name);
        let first = it.next()?;
        if it.next().is_some() {
            return None;
        }
        Some(&first.1)
    };
    let as_dim = |v: &Value| -> Option<usize> {
        // a non-negative JSON integer that fits in 64 bits
        if v.is_u64() {
            v.as_u64().map(|x| x as usize)
        } else {
            None
        }
    };
    let c = as_dim(get("num_cols")?)?;
    let r = as_dim(get("num_rows")?)?;
    let arr = get("data")?.as_array()?;
    let mut cells = Vec::new();
    for e in arr {
        if !e.is_u64() {
            return None;
        }
        let x = e.as_u64()?;
        if x > u32::MAX as u64 {
            return None;
        }
        cells.push(x as u32);
    }
    let p = (c as u128) * (r as u128);
    if p > usize::MAX as u128 || p != cells.len() as u128 {
        return None;
    }
    if (c == 0) != (r == 0) {
        return None;
    }
    Some((c, r, cells))
}

fn deserialize(doc: &str, tr: &str) -> Result<Result<TooDee<u32>, String>, ()> {
    catch(|| -> Result<TooDee<u32>, String> {
        match tr {
            "str" => serde_json::from_str(doc).map_err(|e| e.to_string()),
            "slice" => serde_json::from_slice(doc.as_bytes()).map_err(|e| e.to_string()),
            "reader" => serde_json::from_reader(doc.as_bytes()).map_err(|e| e.to_string()),
            "in_place" => {
                // into an already populated array: Ok must give the document's array, Err must leave a valid array
                let mut target: TooDee<u32> = TooDee::from_vec(2, 2, vec![91, 92, 93, 94]);
                let mut de = serde_json::Deserializer::from_str(doc);
                let r = serde::Deserialize::deserialize_in_place(&mut de, &mut target).and_then(|_| de.end());
                match r {
                    Ok(()) => Ok(target),
                    Err(e) => {
                        if target.num_cols() * target.num_rows() != target.data().len() || (target.num_cols() == 0) != (target.num_rows() == 0) {
                            panic!("deserialize_in_place failed and left the target with dims ({},{}) over {} cells", target.num_cols(), target.num_rows(), target.data().len());
                        }
                        Err(e.to_string())
                    }
                }
            }
            "value" => {
                let v: Value = serde_json::from_str(doc).map_err(|e| format!("(not JSON) {}", e))?;
                serde_json::from_value(v).map_err(|e| e.to_string())
            }
            _ => panic!("unknown transport {}", tr),
        }
    })
}

pub fn run(case: &Value) -> Res {
    let tr = js(&case["transport"]);
    let (doc, expected): (String, Option<(usize, usize, Vec<u32>)>) = if let Some(raw) = case.get("raw") {
        if case.get("seq").and_then(|v| v.as_bool()).unwrap_or(false) {
            // Err is fine; Ok must be the array the sequence denotes in field order (data, num_rows, num_cols)
            let v: Value = serde_json::from_str(js(raw)).expect("sequence document is JSON");
            let m = model(&[("data".to_string(), v[0].clone()), ("num_rows".to_string(), v[1].clone()), ("num_cols".to_string(), v[2].clone())]);
            let variant = format!("{} via {}", js(raw), tr);
            return match deserialize(js(raw), tr) {
                Err(()) => Err(Fail::new(variant, "Err or Ok", "panic")),
                Ok(Err(_)) => Ok(()),
                Ok(Ok(t)) => {
                    shape_invariant(&variant, &t)?;
                    let got = Some((t.num_cols(), t.num_rows(), t.data().to_vec()));
                    if got == m { Ok(()) } else { Err(Fail::new(variant, format!("Err, or Ok {:?} (cols, rows, cells in field order data,num_rows,num_cols)", m), format!("Ok {:?}", got))) }
                }
            };
        }
        (js(raw).to_string(), None)
    } else {
        let fields: Vec<(String, String)> = case["fields"].as_array().unwrap().iter().map(|p| (js(&p[0]).to_string(), js(&p[1]).to_string())).collect();
        let body: Vec<String> = fields.iter().map(|(k, v)| format!("\"{}\":{}", k, v)).collect();
        let doc = format!("{{{}}}", body.join(","));
        let mut parsed: Vec<(String, Value)> = fields.iter().map(|(k, v)| (k.clone(), serde_json::from_str::<Value>(v).expect("fragment is JSON"))).collect();
        if tr == "value" {
            // a value tree keeps one entry per key: the last one
            let mut collapsed: Vec<(String, Value)> = Vec::new();
            for (k, v) in parsed.into_iter() {
                if let Some(e) = collapsed.iter_mut().find(|(k2, _)| *k2 == k) {
                    e.1 = v;
                } else {
                    collapsed.push((k, v));
                }
            }
            parsed = collapsed;
        }
        let m = model(&parsed);
        // Duplicated `data` (everything else present exactly once): the strict reading of C19 wants an
        // error; the crate keeps the last occurrence. Unless the case says "strict": true this is
        // tolerated as long as the result is faithful to ONE of the occurrences.
        let strict = case.get("strict").and_then(|v| v.as_bool()).unwrap_or(false);
        let n_data = parsed.iter().filter(|(k, _)| k == "data").count();
        if !strict && m.is_none() && n_data > 1 && parsed.len() == n_data + 2 {
            let mut candidates = Vec::new();
            for (i, (k, _)) in parsed.iter().enumerate() {
                if k == "data" {
                    let single: Vec<(String, Value)> = parsed.iter().enumerate().filter(|(j, (k2, _))| k2 != "data" || *j == i).map(|(_, kv)| kv.clone()).collect();
                    if let Some(c) = model(&single) {
                        candidates.push(c);
                    }
                }
            }
            let variant = format!("{} via {}", doc, tr);
            return match deserialize(&doc, tr) {
                Err(()) => Err(Fail::new(variant, "Err (or Ok with one of the data occurrences)", "panic")),
                Ok(Err(_)) => Ok(()),
                Ok(Ok(t)) => {
                    shape_invariant(&variant, &t)?;
                    let got = (t.num_cols(), t.num_rows(), t.data().to_vec());
                    if candidates.contains(&got) {
                        Ok(())
                    } else {
                        Err(Fail::new(variant, format!("Err, or Ok with one of {:?}", candidates), format!("Ok {:?}", got)))
                    }
                }
            };
        }
        (doc, m)
    };
    let variant = format!("{} via {}", doc, tr);
    let got = match deserialize(&doc, tr) {
        Err(()) => return Err(Fail::new(variant, if expected.is_some() { "Ok" } else { "Err" }, "panic")),
        Ok(g) => g,
    };
    match (expected, got) {
        (None, Err(_)) => Ok(()),
        (None, Ok(t)) => Err(Fail::new(variant, "Err", format!("Ok dims=({},{}) data={:?}", t.num_cols(), t.num_rows(), t.data()))),
        (Some(e), Err(msg)) => Err(Fail::new(variant, format!("Ok dims=({},{}) data={:?}", e.0, e.1, e.2), format!("Err({})", msg))),
        (Some(e), Ok(t)) => {
            shape_invariant(&variant, &t)?;
            check_eq(&format!("{}: dims", variant), &(e.0, e.1), &(t.num_cols(), t.num_rows()))?;
            check_eq(&format!("{}: cells", variant), &e.2, &t.data().to_vec())
        }
    }
}
