//! Family `access`: all accessor forms denote the same cell; out-of-range accessors panic. [C02]
use crate::common::*;
use serde_json::{json, Value};
use toodee::TooDeeOps;

fn coords(w: usize, h: usize) -> Vec<(usize, usize)> {
    let mut v = Vec::new();
    if w == 0 {
        for r in 0..=1 {
            for c in 0..=1 {
                v.push((c, r));
            }
        }
        for x in huge() {
            v.push((x, 0));
            v.push((0, x));
        }
        v.push((usize::MAX, usize::MAX));
        return v;
    }
    for r in 0..=h + 1 {
        for c in 0..=w + 1 {
            v.push((c, r));
        }
    }
    let few_r = [0, h - 1, h, 1usize << 63, usize::MAX];
    let few_c = [0, w - 1, w, 1usize << 63, usize::MAX];
    for x in huge() {
        for &r in &few_r {
            v.push((x, r));
        }
        for &c in &few_c {
            v.push((c, x));
        }
    }
    v
}

pub fn cases(f: &mut dyn FnMut(Value) -> bool) {
    let mut ts = targets(4, 4, true, true);
    // the 5x5 parent: every non-zero window
    for w in nonzero_windows(5, 5) {
        ts.push(Target::win((5, 5), w));
    }
    for t in ts {
        let (w, h) = t.dims();
        let tj = t.to_json();
        for (c, r) in coords(w, h) {
            if !f(json!({"target": tj, "coord": [c, r]})) {
                return;
            }
        }
    }
}

pub fn run(case: &Value) -> Res {
    let t = Target::from_json(&case["target"]);
    let (c, r) = (ju(&case["coord"][0]), ju(&case["coord"][1]));
    let model = mk_grid(t.shape.0, t.shape.1);
    let rect = t.rect();
    let (oc, or, w, h) = rect;
    let in_range = c < w && r < h;
    let expected: Option<u32> = if in_range { Some(model[or + r][oc + c]) } else { None };
    let show = |o: &Result<u32, ()>| match o {
        Ok(v) => format!("{}", v),
        Err(()) => "panic".to_string(),
    };
    let exp_s = match expected {
        Some(v) => format!("{}", v),
        None => "panic".to_string(),
    };

    // ---- read forms
    let parent = to_toodee(&model);
    let mut reads: Vec<(&str, Result<u32, ()>)> = Vec::new();
    reads.push(("ref x[(c,r)]", catch(|| with_ref_target!(&parent, &t.wins, |x| x[(c, r)]))));
    reads.push(("ref x[r][c]", catch(|| with_ref_target!(&parent, &t.wins, |x| x[r][c]))));
    reads.push(("ref x.col(c)[r]", catch(|| with_ref_target!(&parent, &t.wins, |x| x.col(c)[r]))));
    let mut pm = to_toodee(&model);
    reads.push(("mut x[(c,r)] (read)", catch(|| with_mut_target!(&mut pm, &t.wins, |x| x[(c, r)]))));
    reads.push(("mut x[r][c] (read)", catch(|| with_mut_target!(&mut pm, &t.wins, |x| x[r][c]))));
    reads.push(("mut x.col(c)[r]", catch(|| with_mut_target!(&mut pm, &t.wins, |x| x.col(c)[r]))));
    reads.push(("mut x.col_mut(c)[r] (read)", catch(|| with_mut_target!(&mut pm, &t.wins, |x| x.col_mut(c)[r]))));
    if in_range {
        reads.push(("ref get_unchecked", catch(|| with_ref_target!(&parent, &t.wins, |x| unsafe { *x.get_unchecked((c, r)) }))));
        reads.push(("ref get_unchecked_row", catch(|| with_ref_target!(&parent, &t.wins, |x| unsafe { x.get_unchecked_row(r)[c] }))));
        reads.push(("mut get_unchecked", catch(|| with_mut_target!(&mut pm, &t.wins, |x| unsafe { *x.get_unchecked((c, r)) }))));
        reads.push(("mut get_unchecked_mut (read)", catch(|| with_mut_target!(&mut pm, &t.wins, |x| unsafe { *x.get_unchecked_mut((c, r)) }))));
        reads.push(("ref col(c).nth(r)", catch(|| with_ref_target!(&parent, &t.wins, |x| *x.col(c).nth(r).unwrap()))));
        reads.push(("ref rows().nth(r)[c]", catch(|| with_ref_target!(&parent, &t.wins, |x| x.rows().nth(r).unwrap()[c]))));
        let rl = catch(|| with_ref_target!(&parent, &t.wins, |x| x[r].len()));
        check_eq("ref x[r].len()", &Ok(w), &rl)?;
    }
    for (name, got) in &reads {
        check_str(name, &exp_s, &show(got))?;
    }
    // reads must not have modified anything
    check_parent("parent after reads", &pm, &model)?;

    // ---- write forms: each on a fresh parent, whole parent compared afterwards
    let marker = 900_000u32;
    let mut expect_after = model.clone();
    if in_range {
        expect_after[or + r][oc + c] = marker;
    }
    macro_rules! write_form {
        ($name:expr, |$x:ident| $body:expr) => {{
            let mut p = to_toodee(&model);
            let res = catch(|| with_mut_target!(&mut p, &t.wins, |$x| $body));
            check_panic($name, !in_range, res.is_err())?;
            check_parent(&format!("{} parent afterwards", $name), &p, &expect_after)?;
        }};
    }
    write_form!("x[(c,r)] = v", |x| {
        x[(c, r)] = marker;
    });
    write_form!("x[r][c] = v", |x| {
        x[r][c] = marker;
    });
    write_form!("x.col_mut(c)[r] = v", |x| {
        x.col_mut(c)[r] = marker;
    });
    if in_range {
        write_form!("*get_unchecked_mut = v", |x| unsafe {
            *x.get_unchecked_mut((c, r)) = marker;
        });
        write_form!("get_unchecked_row_mut(r)[c] = v", |x| unsafe {
            x.get_unchecked_row_mut(r)[c] = marker;
        });
        write_form!("col_mut(c).nth(r) = v", |x| {
            *x.col_mut(c).nth(r).unwrap() = marker;
        });
        write_form!("rows_mut().nth(r)[c] = v", |x| {
            x.rows_mut().nth(r).unwrap()[c] = marker;
        });
    }
    Ok(())
}
