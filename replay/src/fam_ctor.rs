//! Family `ctor`: constructors, conversions, clone, equality, hashing. [C20, C01]
use crate::common::*;
use serde_json::{json, Value};
use std::collections::hash_map::DefaultHasher;
use std::fmt::Debug;
use std::hash::{Hash, Hasher};
use toodee::{TooDee, TooDeeOps, TooDeeOpsMut, TooDeeView, TooDeeViewMut};

fn dims() -> Vec<usize> {
    vec![0, 1, 2, 3, 1usize << 32, usize::MAX / 2 + 1, usize::MAX]
}

fn small_arrays() -> Vec<(usize, usize, Vec<u32>)> {
    let mut v = Vec::new();
    for (c, r) in [(0usize, 0usize), (1, 1), (1, 2), (2, 1), (2, 2), (1, 4), (4, 1)] {
        let n = c * r;
        for bits in 0..(1u32 << n) {
            let cells: Vec<u32> = (0..n).map(|i| 7 + ((bits >> i) & 1)).collect();
            v.push((c, r, cells));
        }
    }
    v
}

pub fn cases(f: &mut dyn FnMut(Value) -> bool) {
    let ds = dims();
    for elem in ["u32", "string"] {
        for op in ["new", "init"] {
            for &c in &ds {
                for &r in &ds {
                    // skip requests that are legal but would allocate gigabytes
                    let p = (c as u128) * (r as u128);
                    if c != 0 && r != 0 && p > 64 && p < (1u128 << 61) {
                        continue;
                    }
                    if !f(json!({"op": op, "elem": elem, "cols": c, "rows": r})) {
                        return;
                    }
                }
            }
        }
    }
    for elem in ["u32", "string"] {
        for op in ["from_vec", "from_box", "view_new", "view_mut_new"] {
            for &c in &ds {
                for &r in &ds {
                    let p = (c as u128) * (r as u128);
                    let mut lens: Vec<usize> = if p <= 12 {
                        let p = p as usize;
                        vec![0, p.saturating_sub(1), p, p + 1, p + 2]
                    } else {
                        vec![0, 1, 2, 3, 4]
                    };
                    lens.sort();
                    lens.dedup();
                    for len in lens {
                        if !f(json!({"op": op, "elem": elem, "cols": c, "rows": r, "len": len})) {
                            return;
                        }
                    }
                }
            }
        }
    }
    for elem in ["u32", "string"] {
        for (c, r) in shapes(4) {
            if !f(json!({"op": "convert", "elem": elem, "cols": c, "rows": r})) {
                return;
            }
        }
    }
    // zero-sized cells: every Vec<()> has the same (dangling) data pointer and no bytes to compare,
    // so equality can only come from the dimensions
    for a in shapes(4) {
        for b in shapes(4) {
            if !f(json!({"op": "eqzst", "a": [a.0, a.1], "b": [b.0, b.1]})) {
                return;
            }
        }
    }
    let arrs = small_arrays();
    for a in &arrs {
        for b in &arrs {
            if !f(json!({"op": "eq", "a": {"cols": a.0, "rows": a.1, "cells": a.2}, "b": {"cols": b.0, "rows": b.1, "cells": b.2}})) {
                return;
            }
        }
    }
}

trait Elem: Clone + Debug + PartialEq + Default + Hash + 'static {
    fn gen(i: usize) -> Self;
    fn size() -> u128;
}
impl Elem for u32 {
    fn gen(i: usize) -> u32 {
        i as u32 + 1
    }
    fn size() -> u128 {
        4
    }
}
impl Elem for String {
    fn gen(i: usize) -> String {
        format!("s{}", i)
    }
    fn size() -> u128 {
        std::mem::size_of::<String>() as u128
    }
}

/// Checks a freshly built array against the requested dims and the expected row-major cells.
fn check_built<T: Elem>(variant: &str, t: &TooDee<T>, c: usize, r: usize, cells: &[T]) -> Res {
    check_eq(&format!("{} dims", variant), &(c, r), &(t.num_cols(), t.num_rows()))?;
    check_eq(&format!("{} size()", variant), &(c, r), &t.size())?;
    check_eq(&format!("{} data().len()", variant), &(c * r), &t.data().len())?;
    check_eq(&format!("{} data()", variant), &cells.to_vec(), &t.data().to_vec())?;
    check_eq(&format!("{} is_empty()", variant), &(c == 0), &t.is_empty())?;
    check_eq(&format!("{} rows().len()", variant), &r, &t.rows().len())?;
    check_eq(&format!("{} cells().len()", variant), &(c * r), &t.cells().len())?;
    for rr in 0..r {
        for cc in 0..c {
            check_eq(&format!("{} cell ({},{})", variant, cc, rr), &cells[rr * c + cc], &t[(cc, rr)])?;
        }
    }
    Ok(())
}

fn run_elem<T: Elem>(case: &Value) -> Res {
    let op = js(&case["op"]);
    let c = ju(&case["cols"]);
    let r = ju(&case["rows"]);
    let p128 = (c as u128) * (r as u128);
    let overflow = p128 > usize::MAX as u128;
    let zero_rule = (c == 0) != (r == 0);
    match op {
        "new" | "init" => {
            let too_big = !overflow && p128 * T::size() > isize::MAX as u128;
            let expect_panic = zero_rule || overflow || too_big;
            if !expect_panic && p128 > 64 {
                return Ok(()); // would allocate too much; not enumerated
            }
            let res = catch(|| if op == "new" { TooDee::<T>::new(c, r) } else { TooDee::<T>::init(c, r, T::gen(41)) });
            check_panic(op, expect_panic, res.is_err())?;
            if let Ok(t) = res {
                let v = if op == "new" { T::default() } else { T::gen(41) };
                let cells = vec![v; c * r];
                check_built(op, &t, c, r, &cells)?;
            }
            Ok(())
        }
        "from_vec" | "from_box" => {
            let len = ju(&case["len"]);
            let buf: Vec<T> = (0..len).map(T::gen).collect();
            let expect_panic = zero_rule || overflow || p128 != len as u128;
            let b2 = buf.clone();
            let res = catch(move || if op == "from_vec" { TooDee::from_vec(c, r, b2) } else { TooDee::from_box(c, r, b2.into_boxed_slice()) });
            check_panic(op, expect_panic, res.is_err())?;
            if let Ok(t) = res {
                check_built(op, &t, c, r, &buf)?;
            }
            Ok(())
        }
        "view_new" | "view_mut_new" => {
            let len = ju(&case["len"]);
            let mut buf: Vec<T> = (0..len).map(T::gen).collect();
            let orig = buf.clone();
            let expect_panic = zero_rule || overflow || p128 > len as u128;
            if op == "view_new" {
                let res = catch(|| TooDeeView::new(c, r, &buf));
                check_panic(op, expect_panic, res.is_err())?;
                if let Ok(v) = res {
                    check_eq("view_new dims", &(c, r), &(v.num_cols(), v.num_rows()))?;
                    check_eq("view_new rows().len()", &r, &v.rows().len())?;
                    check_eq("view_new cells().len()", &(c * r), &v.cells().len())?;
                    for rr in 0..r {
                        check_eq("view_new row", &orig[rr * c..rr * c + c].to_vec(), &v[rr].to_vec())?;
                        for cc in 0..c {
                            check_eq(&format!("view_new cell ({},{})", cc, rr), &orig[rr * c + cc], &v[(cc, rr)])?;
                        }
                    }
                    let cells: Vec<T> = v.cells().cloned().collect();
                    check_eq("view_new cells()", &orig[..c * r].to_vec(), &cells)?;
                    // From<view>
                    let owned = TooDee::from(v);
                    check_built("From<TooDeeView>", &owned, c, r, &orig[..c * r])?;
                }
            } else {
                let res = catch(|| {
                    let mut v = TooDeeViewMut::new(c, r, &mut buf);
                    let dims = (v.num_cols(), v.num_rows());
                    let cells: Vec<T> = v.cells().cloned().collect();
                    let rows_len = v.rows().len();
                    // write the last cell through the view
                    if c > 0 && r > 0 {
                        v[(c - 1, r - 1)] = T::gen(9999);
                    }
                    let owned = TooDee::from(v);
                    (dims, cells, rows_len, owned)
                });
                check_panic(op, expect_panic, res.is_err())?;
                if let Ok((dims, cells, rows_len, owned)) = res {
                    check_eq("view_mut_new dims", &(c, r), &dims)?;
                    check_eq("view_mut_new rows().len()", &r, &rows_len)?;
                    check_eq("view_mut_new cells()", &orig[..c * r].to_vec(), &cells)?;
                    let mut exp = orig.clone();
                    if c > 0 && r > 0 {
                        exp[c * r - 1] = T::gen(9999);
                    }
                    check_eq("view_mut_new write-through", &exp, &buf)?;
                    check_built("From<TooDeeViewMut>", &owned, c, r, &exp[..c * r])?;
                }
            }
            Ok(())
        }
        "convert" => {
            let cells: Vec<T> = (0..c * r).map(T::gen).collect();
            let t = TooDee::from_vec(c, r, cells.clone());
            let v: Vec<T> = Vec::from(t.clone());
            check_eq("into Vec", &cells, &v)?;
            let b: Box<[T]> = t.clone().into();
            check_eq("into Box<[T]>", &cells, &b.to_vec())?;
            let it: Vec<T> = t.clone().into_iter().collect();
            check_eq("into_iter", &cells, &it)?;
            let mut it2 = t.clone().into_iter();
            let mut back: Vec<T> = Vec::new();
            while let Some(x) = it2.next_back() {
                back.push(x);
            }
            back.reverse();
            check_eq("into_iter reversed", &cells, &back)?;
            let asr: &[T] = t.as_ref();
            check_eq("as_ref", &cells, &asr.to_vec())?;
            // clone: equal and independent
            let mut cl = t.clone();
            check_eq("clone == original", &true, &(cl == t))?;
            check_built("clone", &cl, c, r, &cells)?;
            if c > 0 {
                cl[(c - 1, r - 1)] = T::gen(777);
                check_eq("clone independent (original data)", &cells, &t.data().to_vec())?;
                check_eq("modified clone != original", &false, &(cl == t))?;
                let mut t2 = t.clone();
                t2.data_mut()[0] = T::gen(778);
                check_eq("clone independent (2)", &cells, &t.data().to_vec())?;
            }
            // From<view> of the whole and of a sub-window
            let whole = TooDee::from(t.view((0, 0), (c, r)));
            check_eq("From<view whole> == original", &true, &(whole == t))?;
            if c >= 2 && r >= 2 {
                let sub = TooDee::from(t.view((1, 1), (c, r)));
                let mut exp = Vec::new();
                for rr in 1..r {
                    for cc in 1..c {
                        exp.push(cells[rr * c + cc].clone());
                    }
                }
                check_built("From<sub view>", &sub, c - 1, r - 1, &exp)?;
                let mut t3 = t.clone();
                let sub2 = TooDee::from(t3.view_mut((1, 1), (c, r)));
                check_built("From<sub view_mut>", &sub2, c - 1, r - 1, &exp)?;
            }
            // default
            let d: TooDee<T> = TooDee::default();
            check_built("default", &d, 0, 0, &[])?;
            let w: TooDee<T> = TooDee::with_capacity(5);
            check_built("with_capacity", &w, 0, 0, &[])?;
            let mut t4 = t.clone();
            t4.clear();
            check_built("clear", &t4, 0, 0, &[])?;
            Ok(())
        }
        _ => panic!("unknown ctor op {}", op),
    }
}

fn hash_of<T: Hash>(t: &T) -> u64 {
    let mut h = DefaultHasher::new();
    t.hash(&mut h);
    h.finish()
}

pub fn run(case: &Value) -> Res {
    if js(&case["op"]) == "eqzst" {
        let a = (ju(&case["a"][0]), ju(&case["a"][1]));
        let b = (ju(&case["b"][0]), ju(&case["b"][1]));
        let ta: TooDee<()> = TooDee::from_vec(a.0, a.1, vec![(); a.0 * a.1]);
        let tb: TooDee<()> = TooDee::from_vec(b.0, b.1, vec![(); b.0 * b.1]);
        let model_eq = a == b;
        check_eq("zero-sized cells: a == b", &model_eq, &(ta == tb))?;
        check_eq("zero-sized cells: a != b", &!model_eq, &(ta != tb))?;
        if model_eq {
            check_eq("zero-sized cells: hash(a) == hash(b)", &true, &(hash_of(&ta) == hash_of(&tb)))?;
        }
        let ca = ta.clone();
        check_eq("zero-sized cells: a.clone() == a", &true, &(ca == ta))?;
        check_eq("zero-sized cells: a.clone() dims", &a, &(ca.num_cols(), ca.num_rows()))?;
        return Ok(());
    }
    if js(&case["op"]) == "eq" {
        let get = |v: &Value| {
            let c = ju(&v["cols"]);
            let r = ju(&v["rows"]);
            let cells: Vec<u32> = jvec(&v["cells"]).into_iter().map(|x| x as u32).collect();
            (c, r, cells)
        };
        let a = get(&case["a"]);
        let b = get(&case["b"]);
        let ta = TooDee::from_vec(a.0, a.1, a.2.clone());
        let tb = TooDee::from_vec(b.0, b.1, b.2.clone());
        let model_eq = a == b;
        check_eq("a == b", &model_eq, &(ta == tb))?;
        check_eq("a != b", &!model_eq, &(ta != tb))?;
        if model_eq {
            check_eq("hash(a) == hash(b)", &true, &(hash_of(&ta) == hash_of(&tb)))?;
        }
        // views over the same cells compare likewise
        let va = ta.view((0, 0), (a.0, a.1));
        let vb = tb.view((0, 0), (b.0, b.1));
        check_eq("view a == view b", &model_eq, &(va == vb))?;
        // clone() and clone_from() yield an equal, independent array whatever the target held before
        let ca = ta.clone();
        check_eq("a.clone() == a", &true, &(ca == ta))?;
        check_eq("a.clone() dims", &(a.0, a.1), &(ca.num_cols(), ca.num_rows()))?;
        let mut tc = tb.clone();
        tc.clone_from(&ta);
        check_eq("b.clone_from(a) dims", &(a.0, a.1), &(tc.num_cols(), tc.num_rows()))?;
        check_eq("b.clone_from(a) cells", &a.2, &tc.data().to_vec())?;
        check_eq("b.clone_from(a) == a", &true, &(tc == ta))?;
        return Ok(());
    }
    match js(&case["elem"]) {
        "u32" => run_elem::<u32>(case),
        "string" => run_elem::<String>(case),
        e => panic!("unknown elem {}", e),
    }
}
