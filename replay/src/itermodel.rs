//! Ideal double-ended exact-size sequence (VecDeque) and a driver that applies the same operation
//! sequence to a real iterator, producing comparable traces.
use crate::common::*;
use serde_json::{json, Value};
use std::collections::VecDeque;

#[derive(Debug, Clone, PartialEq)]
pub enum ItOp {
    Next,
    NextBack,
    Nth(usize),
    NthBack(usize),
    Len,
    SizeHint,
    /// consumes the iterator: ends the sequence
    Count,
    /// consumes the iterator: ends the sequence
    Last,
    /// `it[i]` on the remaining sequence (columns only)
    Index(usize),
}

impl ItOp {
    pub fn to_json(&self) -> Value {
        match self {
            ItOp::Next => json!(["next"]),
            ItOp::NextBack => json!(["next_back"]),
            ItOp::Nth(n) => json!(["nth", n]),
            ItOp::NthBack(n) => json!(["nth_back", n]),
            ItOp::Len => json!(["len"]),
            ItOp::SizeHint => json!(["size_hint"]),
            ItOp::Count => json!(["count"]),
            ItOp::Last => json!(["last"]),
            ItOp::Index(i) => json!(["index", i]),
        }
    }
    pub fn from_json(v: &Value) -> ItOp {
        match js(&v[0]) {
            "next" => ItOp::Next,
            "next_back" => ItOp::NextBack,
            "nth" => ItOp::Nth(ju(&v[1])),
            "nth_back" => ItOp::NthBack(ju(&v[1])),
            "len" => ItOp::Len,
            "size_hint" => ItOp::SizeHint,
            "count" => ItOp::Count,
            "last" => ItOp::Last,
            "index" => ItOp::Index(ju(&v[1])),
            o => panic!("unknown iterator op {}", o),
        }
    }
    pub fn is_terminal(&self) -> bool {
        matches!(self, ItOp::Count | ItOp::Last)
    }
}

#[derive(Debug, Clone, Copy, PartialEq)]
pub enum Fin {
    Fold,
    RFold,
}

fn opt(o: Option<String>) -> String {
    match o {
        Some(s) => format!("Some({})", s),
        None => "None".to_string(),
    }
}

/// Applies `seq` (and then the final fold, unless the sequence ended with count/last) to a real iterator.
/// `item` renders (and, for mutable iterators, marks) a yielded item; `index` performs `it[i]`.
pub fn drive<I>(
    it: I,
    seq: &[ItOp],
    fin: Fin,
    trace: &mut Vec<String>,
    item: &mut dyn FnMut(I::Item) -> String,
    index: &mut dyn FnMut(&mut I, usize) -> String,
) where
    I: DoubleEndedIterator + ExactSizeIterator,
{
    let mut it = it;
    for op in seq {
        match op {
            ItOp::Next => {
                let x = it.next();
                trace.push(format!("next={}", opt(x.map(&mut *item))));
            }
            ItOp::NextBack => {
                let x = it.next_back();
                trace.push(format!("next_back={}", opt(x.map(&mut *item))));
            }
            ItOp::Nth(n) => {
                let x = it.nth(*n);
                trace.push(format!("nth={}", opt(x.map(&mut *item))));
            }
            ItOp::NthBack(n) => {
                let x = it.nth_back(*n);
                trace.push(format!("nth_back={}", opt(x.map(&mut *item))));
            }
            ItOp::Len => {
                let h = it.size_hint();
                if h.1 != Some(h.0) {
                    trace.push(format!("size_hint={:?}", h));
                }
                trace.push(format!("len={}", it.len()));
                continue;
            }
            ItOp::SizeHint => {
                trace.push(format!("size_hint={:?}", it.size_hint()));
                continue;
            }
            ItOp::Count => {
                trace.push(format!("count={}", it.count()));
                return;
            }
            ItOp::Last => {
                let x = it.last();
                trace.push(format!("last={}", opt(x.map(&mut *item))));
                return;
            }
            ItOp::Index(i) => {
                trace.push(format!("index={}", index(&mut it, *i)));
                continue;
            }
        }
        // after every mutating step: the reported length
        trace.push(format!("hint={:?}", it.size_hint()));
    }
    match fin {
        Fin::Fold => {
            let v = it.fold(Vec::new(), |mut acc, x| {
                acc.push(item(x));
                acc
            });
            trace.push(format!("fold={:?}", v));
        }
        Fin::RFold => {
            let v = it.rfold(Vec::new(), |mut acc, x| {
                acc.push(item(x));
                acc
            });
            trace.push(format!("rfold={:?}", v));
        }
    }
}

/// The ideal sequence. Items are (id, rendering). `yielded` receives the ids in the order they were
/// handed out; `indexed` the ids touched by in-range `Index` operations.
pub fn model_drive(
    items: Vec<(usize, String)>,
    seq: &[ItOp],
    fin: Fin,
    yielded: &mut Vec<usize>,
    indexed: &mut Vec<usize>,
    index_bump: u32,
) -> Vec<String> {
    let mut q: VecDeque<(usize, String)> = items.into();
    let mut trace = Vec::new();
    let give = |x: Option<(usize, String)>, yielded: &mut Vec<usize>| -> String {
        match x {
            Some((id, s)) => {
                yielded.push(id);
                format!("Some({})", s)
            }
            None => "None".to_string(),
        }
    };
    for op in seq {
        match op {
            ItOp::Next => {
                let x = q.pop_front();
                trace.push(format!("next={}", give(x, yielded)));
            }
            ItOp::NextBack => {
                let x = q.pop_back();
                trace.push(format!("next_back={}", give(x, yielded)));
            }
            ItOp::Nth(n) => {
                // n < len: the first n elements are discarded, element n is returned.
                // n >= len: everything is discarded, None.
                let x = if *n < q.len() {
                    for _ in 0..*n {
                        q.pop_front();
                    }
                    q.pop_front()
                } else {
                    q.clear();
                    None
                };
                trace.push(format!("nth={}", give(x, yielded)));
            }
            ItOp::NthBack(n) => {
                let x = if *n < q.len() {
                    for _ in 0..*n {
                        q.pop_back();
                    }
                    q.pop_back()
                } else {
                    q.clear();
                    None
                };
                trace.push(format!("nth_back={}", give(x, yielded)));
            }
            ItOp::Len => {
                trace.push(format!("len={}", q.len()));
                continue;
            }
            ItOp::SizeHint => {
                trace.push(format!("size_hint={:?}", (q.len(), Some(q.len()))));
                continue;
            }
            ItOp::Count => {
                trace.push(format!("count={}", q.len()));
                return trace;
            }
            ItOp::Last => {
                let x = q.pop_back();
                trace.push(format!("last={}", give(x, yielded)));
                return trace;
            }
            ItOp::Index(i) => {
                if *i < q.len() {
                    trace.push(format!("index={}", q[*i].1));
                    if index_bump > 0 {
                        // a mutable column: the indexed cell is bumped through IndexMut
                        indexed.push(q[*i].0);
                        let v: u32 = q[*i].1.parse().expect("numeric item");
                        q[*i].1 = format!("{}", v + index_bump);
                    }
                } else {
                    trace.push("index=panic".to_string());
                }
                continue;
            }
        }
        trace.push(format!("hint={:?}", (q.len(), Some(q.len()))));
    }
    match fin {
        Fin::Fold => {
            let mut v = Vec::new();
            while let Some((id, s)) = q.pop_front() {
                yielded.push(id);
                v.push(s);
            }
            trace.push(format!("fold={:?}", v));
        }
        Fin::RFold => {
            let mut v = Vec::new();
            while let Some((id, s)) = q.pop_back() {
                yielded.push(id);
                v.push(s);
            }
            trace.push(format!("rfold={:?}", v));
        }
    }
    trace
}

/// Sequence enumeration shared by rows / cols / cells.
pub struct SeqSpec {
    /// n values for sequences of length <= 2 (first position)
    pub n_full: Vec<usize>,
    /// n values for the first position of length-3 sequences
    pub n_first3: Vec<usize>,
    /// n values for later positions
    pub n_later: Vec<usize>,
    /// index values usable as the last op of short sequences (empty: no indexing)
    pub idx_full: Vec<usize>,
    /// index values usable as the last op of length-3 sequences
    pub idx_later: Vec<usize>,
}

fn mutating(ns: &[usize]) -> Vec<ItOp> {
    let mut v = vec![ItOp::Next, ItOp::NextBack];
    for &n in ns {
        v.push(ItOp::Nth(n));
    }
    for &n in ns {
        v.push(ItOp::NthBack(n));
    }
    v
}

fn last_ops(ns: &[usize], idx: &[usize]) -> Vec<ItOp> {
    let mut v = mutating(ns);
    v.extend([ItOp::Len, ItOp::SizeHint, ItOp::Count, ItOp::Last]);
    for &i in idx {
        v.push(ItOp::Index(i));
    }
    v
}

/// All sequences of length 1..=depth: mutating prefix + any last op.
pub fn sequences(spec: &SeqSpec, depth: usize, f: &mut dyn FnMut(&[ItOp]) -> bool) -> bool {
    // length 1
    for a in last_ops(&spec.n_full, &spec.idx_full) {
        if !f(&[a]) {
            return false;
        }
    }
    if depth >= 2 {
        let lasts = last_ops(&spec.n_later, &spec.idx_full);
        for a in mutating(&spec.n_full) {
            for b in &lasts {
                if !f(&[a.clone(), b.clone()]) {
                    return false;
                }
            }
        }
    }
    if depth >= 3 {
        let lasts = last_ops(&spec.n_later, &spec.idx_later);
        let mids = mutating(&spec.n_later);
        for a in mutating(&spec.n_first3) {
            for b in &mids {
                for c in &lasts {
                    if !f(&[a.clone(), b.clone(), c.clone()]) {
                        return false;
                    }
                }
            }
        }
    }
    true
}

pub fn seq_to_json(seq: &[ItOp]) -> Value {
    Value::Array(seq.iter().map(|o| o.to_json()).collect())
}

pub fn seq_from_json(v: &Value) -> Vec<ItOp> {
    v.as_array().map(|a| a.iter().map(ItOp::from_json).collect()).unwrap_or_default()
}

/// Compare two traces.
pub fn check_trace(variant: &str, expected: &[String], got: &[String]) -> Res {
    if expected == got {
        Ok(())
    } else {
        Err(Fail::new(variant, expected.join("; "), got.join("; ")))
    }
}
