//! Family `panicsafe`: caller code panics inside an operation; the array must stay valid. [C11]
use crate::common::*;
use crate::fam_insrem::shape_invariant;
use crate::fam_sort::{is_row_method, METHODS};
use crate::tok::{self, Tok};
use serde_json::{json, Value};
use std::collections::{BTreeSet, VecDeque};
use toodee::{CopyOps, SortOps, TooDee, TooDeeOps};

/// An iterator that lies about its length and/or panics on its k-th `next`/`next_back` call.
struct EvilIter {
    items: VecDeque<Tok>,
    reported: usize,
    panic_at: Option<usize>,
    calls: usize,
    /// the iterator's own destructor panics (the last call into caller code of an operation)
    drop_panics: bool,
}

impl Drop for EvilIter {
    fn drop(&mut self) {
        if self.drop_panics && !std::thread::panicking() {
            self.drop_panics = false;
            panic!("injected iterator destructor panic");
        }
    }
}

impl EvilIter {
    fn tick(&mut self) {
        if self.panic_at == Some(self.calls) {
            self.calls += 1;
            panic!("injected iterator panic");
        }
        self.calls += 1;
    }
}

impl Iterator for EvilIter {
    type Item = Tok;
    fn next(&mut self) -> Option<Tok> {
        self.tick();
        self.items.pop_front()
    }
    fn size_hint(&self) -> (usize, Option<usize>) {
        (self.reported, Some(self.reported))
    }
}
impl DoubleEndedIterator for EvilIter {
    fn next_back(&mut self) -> Option<Tok> {
        self.tick();
        self.items.pop_back()
    }
}
impl ExactSizeIterator for EvilIter {
    fn len(&self) -> usize {
        self.reported
    }
}

fn tok_array(c: usize, r: usize) -> TooDee<Tok> {
    let g = mk_grid(c, r);
    TooDee::from_vec(c, r, flat(&g).into_iter().map(Tok::new).collect())
}

/// Everything C11 demands after the caught panic (or the normal return).
pub fn post_check(variant: &str, mut t: TooDee<Tok>, modify: bool) -> Res {
    tok::disarm();
    tok::set_cmp_panic(None);
    shape_invariant(variant, &t)?;
    // every reachable cell readable, live and distinct
    let r = catch(|| {
        let mut ids = Vec::new();
        for rr in 0..t.num_rows() {
            for cc in 0..t.num_cols() {
                let x = &t[(cc, rr)];
                ids.push((x.id, x.val));
            }
        }
        let n2 = t.cells().count();
        let n3: usize = t.rows().map(|r| r.len()).sum();
        (ids, n2, n3)
    });
    let (ids, _, _) = match r {
        Ok(x) => x,
        Err(()) => return Err(Fail::new(format!("{}: reading every cell", variant), "no panic", "panic")),
    };
    let mut seen = BTreeSet::new();
    for (id, val) in &ids {
        if tok::drop_count(*id) != 0 {
            return Err(Fail::new(format!("{}: reachable cells are live", variant), "drop count 0", format!("cell val {} id {} dropped {} time(s)", val, id, tok::drop_count(*id))));
        }
        if !seen.insert(*id) {
            return Err(Fail::new(format!("{}: reachable cells are distinct elements", variant), "each element at most once", format!("id {} (val {}) reachable twice", id, val)));
        }
    }
    let dd = tok::double_drops();
    if !dd.is_empty() {
        return Err(Fail::new(format!("{}: drops", variant), "no token dropped twice", format!("(id,drops)={:?}", dd)));
    }
    if modify {
        // still modifiable
        let cols = if t.num_cols() == 0 { 2 } else { t.num_cols() };
        let rows_before = t.num_rows();
        let r = catch(|| {
            let row: Vec<Tok> = (0..cols).map(|k| Tok::new(60_000 + k as u32)).collect();
            t.push_row(row);
            if t.num_cols() > 0 {
                t[(0, 0)] = Tok::new(61_000);
            }
        });
        if r.is_err() {
            return Err(Fail::new(format!("{}: push_row afterwards", variant), "no panic", "panic"));
        }
        shape_invariant(&format!("{}: after push_row", variant), &t)?;
        check_eq(&format!("{}: rows after push_row", variant), &(rows_before + 1), &t.num_rows())?;
        let last: Vec<u32> = t[rows_before].iter().map(|x| x.val).collect();
        let mut exp: Vec<u32> = (0..cols).map(|k| 60_000 + k as u32).collect();
        if rows_before == 0 {
            exp[0] = 61_000;
        }
        check_eq(&format!("{}: pushed row", variant), &exp, &last)?;
    }
    let r = catch(move || drop(t));
    if r.is_err() {
        return Err(Fail::new(format!("{}: dropping the array", variant), "no panic", "panic"));
    }
    let dd = tok::double_drops();
    if !dd.is_empty() {
        return Err(Fail::new(format!("{}: drops after dropping the array", variant), "no token dropped twice", format!("(id,drops)={:?}", dd)));
    }
    Ok(())
}

fn windows_small() -> Vec<Target> {
    let mut v: Vec<Target> = shapes(3).into_iter().map(Target::owned).collect();
    v.push(Target::win((4, 4), [1, 1, 3, 3]));
    v.push(Target::win((3, 3), [0, 1, 3, 3]));
    v.push(Target::win((3, 3), [1, 0, 2, 3]));
    v.push(Target::win((3, 3), [2, 2, 3, 3]));
    v.push(Target::win((3, 3), [1, 1, 1, 1]));
    v.push(Target::nested((5, 5), [1, 1, 5, 5], [1, 1, 3, 3]));
    v
}

pub fn cases(f: &mut dyn FnMut(Value) -> bool) {
    // ---- S1: evil iterators
    let big = [usize::MAX, usize::MAX / 2 + 1];
    for cap in ["exact", "spare"] {
        for (c, r) in shapes(3) {
            for op in ["insert_row", "insert_col", "push_row", "push_col"] {
                let (n_lines, line_len) = if op.ends_with("row") { (r, c) } else { (c, r) };
                let first_index = if op.starts_with("push") { n_lines } else { 0 };
                for index in first_index..=n_lines {
                    let haves: Vec<usize> = if n_lines == 0 { (0..=3).collect() } else { (0..=line_len + 1).collect() };
                    for &have in &haves {
                        let mut reps: Vec<usize> = if n_lines == 0 { (0..=4).collect() } else { (0..=line_len + 1).collect() };
                        reps.extend(big);
                        for rep in reps {
                            let mut ks: Vec<Option<usize>> = vec![None];
                            ks.extend((0..=have).map(Some));
                            for k in ks {
                                if !f(json!({"scenario": "iter", "cap": cap, "op": op, "shape": [c, r], "index": index, "have": have, "rep": rep, "panic_at": k})) {
                                    return;
                                }
                            }
                            // nothing panics until the iterator itself is destroyed
                            if !f(json!({"scenario": "iter", "cap": cap, "op": op, "shape": [c, r], "index": index, "have": have, "rep": rep, "panic_at": null, "drop_panics": true})) {
                                return;
                            }
                        }
                    }
                }
            }
        }
    }
    // ---- S2: Clone panics
    for t in windows_small() {
        let (w, h) = t.dims();
        let cells = w * h;
        for op in ["fill", "clone_from_slice", "clone_from_toodee", "clone_from_strided", "from_view", "from_view_mut"] {
            for k in 0..=cells + h + 1 {
                if !f(json!({"scenario": "clone", "op": op, "target": t.to_json(), "k": k})) {
                    return;
                }
            }
        }
        if t.wins.is_empty() {
            for op in ["init", "clone", "clone_from_small", "clone_from_big"] {
                for k in 0..=cells + 1 {
                    if !f(json!({"scenario": "clone", "op": op, "target": t.to_json(), "k": k})) {
                        return;
                    }
                }
            }
            // ---- S3: Default panics
            for k in 0..=cells + 1 {
                if !f(json!({"scenario": "default", "target": t.to_json(), "k": k})) {
                    return;
                }
            }
        }
    }
    // ---- S4: Drop panics
    for (c, r) in shapes(3) {
        for k in 0..=c * r + 1 {
            if !f(json!({"scenario": "drop", "op": "clear", "shape": [c, r], "k": k})) {
                return;
            }
        }
        for op in ["remove_col", "pop_col", "remove_row", "pop_row"] {
            let (n_lines, line_len) = if op.ends_with("col") { (c, r) } else { (r, c) };
            let idxs: Vec<usize> = if op.starts_with("pop") { vec![0] } else { (0..n_lines).collect() };
            if n_lines == 0 {
                continue;
            }
            for i in idxs {
                for front in 0..=line_len {
                    for back in 0..=line_len - front {
                        for k in 0..=line_len - front - back + 1 {
                            if !f(json!({"scenario": "drop", "op": op, "shape": [c, r], "index": i, "front": front, "back": back, "k": k})) {
                                return;
                            }
                        }
                    }
                }
            }
        }
    }
    // ---- S4z: the same with zero-sized cells
    for (c, r) in shapes(3) {
        for k in 0..=c * r {
            if !f(json!({"scenario": "zdrop", "op": "clear", "shape": [c, r], "k": k})) {
                return;
            }
        }
        for op in ["remove_col", "pop_col", "remove_row", "pop_row"] {
            let (n_lines, line_len) = if op.ends_with("col") { (c, r) } else { (r, c) };
            if n_lines == 0 {
                continue;
            }
            let idxs: Vec<usize> = if op.starts_with("pop") { vec![0] } else { (0..n_lines).collect() };
            for i in idxs {
                for front in 0..=line_len {
                    for back in 0..=line_len - front {
                        for k in 0..=line_len - front - back {
                            if !f(json!({"scenario": "zdrop", "op": op, "shape": [c, r], "index": i, "front": front, "back": back, "k": k})) {
                                return;
                            }
                        }
                    }
                }
            }
        }
    }
    // ---- S5: comparator / key function panics
    let mut sort_ts: Vec<Target> = shapes(4).into_iter().map(Target::owned).collect();
    sort_ts.push(Target::win((5, 5), [1, 1, 4, 4]));
    sort_ts.push(Target::win((4, 4), [0, 1, 4, 3]));
    sort_ts.push(Target::win((4, 4), [2, 0, 4, 4]));
    for t in sort_ts {
        let (w, h) = t.dims();
        for m in METHODS {
            let (n_lines, line_len) = if is_row_method(m) { (h, w) } else { (w, h) };
            if n_lines == 0 {
                continue;
            }
            let mut idxs = vec![0, n_lines - 1];
            idxs.dedup();
            for index in idxs {
                for pat in 0..3usize {
                    let keys: Vec<usize> = match pat {
                        0 => (0..line_len).map(|k| (line_len - k) % 3).collect(),
                        1 => (0..line_len).map(|k| (2 * k + 1) % 3).collect(),
                        _ => (0..line_len).map(|k| 2 - (k % 2) * 2).collect(),
                    };
                    for k in 0..=13usize {
                        if !f(json!({"scenario": "sort", "method": m, "target": t.to_json(), "index": index, "keys": keys, "k": k})) {
                            return;
                        }
                    }
                }
            }
        }
    }
}

fn tok_parent(t: &Target) -> TooDee<Tok> {
    tok_array(t.shape.0, t.shape.1)
}

fn run_sort(case: &Value) -> Res {
    let m = js(&case["method"]);
    let t = Target::from_json(&case["target"]);
    let index = ju(&case["index"]);
    let keys = jvec(&case["keys"]);
    let k = ju(&case["k"]);
    const KEY: u32 = 10_000;
    let g = crate::fam_sort::build(&t, is_row_method(m), index, &keys);
    let mut p: TooDee<Tok> = TooDee::from_vec(t.shape.0, t.shape.1, flat(&g).into_iter().map(Tok::new).collect());
    let ids_before: BTreeSet<u32> = p.data().iter().map(|x| x.id).collect();
    let mut calls = 0usize;
    let mut tick = move || {
        if calls == k {
            calls += 1;
            panic!("injected comparator panic");
        }
        calls += 1;
    };
    if m.ends_with("_ord") {
        tok::set_cmp_panic(Some(k));
    }
    let _ = catch(|| {
        with_mut_target!(&mut p, &t.wins, |x| match m {
            "sort_row_ord" => x.sort_row_ord::<()>(index),
            "sort_unstable_row_ord" => x.sort_unstable_row_ord::<()>(index),
            "sort_col_ord" => x.sort_col_ord::<()>(index),
            "sort_by_row" => x.sort_by_row(index, |a, b| {
                tick();
                (a.val / KEY).cmp(&(b.val / KEY))
            }),
            "sort_unstable_by_row" => x.sort_unstable_by_row(index, |a, b| {
                tick();
                (a.val / KEY).cmp(&(b.val / KEY))
            }),
            "sort_by_col" => x.sort_by_col(index, |a, b| {
                tick();
                (a.val / KEY).cmp(&(b.val / KEY))
            }),
            "sort_unstable_by_col" => x.sort_unstable_by_col(index, |a, b| {
                tick();
                (a.val / KEY).cmp(&(b.val / KEY))
            }),
            "sort_by_row_key" => x.sort_by_row_key(index, |a| {
                tick();
                a.val / KEY
            }),
            "sort_unstable_by_row_key" => x.sort_unstable_by_row_key(index, |a| {
                tick();
                a.val / KEY
            }),
            "sort_by_col_key" => x.sort_by_col_key(index, |a| {
                tick();
                a.val / KEY
            }),
            "sort_unstable_by_col_key" => x.sort_unstable_by_col_key(index, |a| {
                tick();
                a.val / KEY
            }),
            _ => panic!("unknown method {}", m),
        })
    });
    tok::set_cmp_panic(None);
    // a sort never creates or destroys elements
    check_eq("dims after sort", &t.shape, &(p.num_cols(), p.num_rows()))?;
    shape_invariant("after sort", &p)?;
    let ids_after: BTreeSet<u32> = p.data().iter().map(|x| x.id).collect();
    if ids_before != ids_after || ids_after.len() != p.data().len() {
        return Err(Fail::new("elements after sort", "the same elements, each exactly once", format!("ids {:?}", p.data().iter().map(|x| x.id).collect::<Vec<_>>())));
    }
    // cells outside the window untouched
    let (oc, or, w, h) = t.rect();
    for r in 0..t.shape.1 {
        for c in 0..t.shape.0 {
            let inside = c >= oc && c < oc + w && r >= or && r < or + h;
            if !inside && p[(c, r)].val != g[r][c] {
                return Err(Fail::new("cells outside the window", format!("({},{})={}", c, r, g[r][c]), format!("{}", p[(c, r)].val)));
            }
        }
    }
    post_check("sort", p, true)
}

pub fn run(case: &Value) -> Res {
    tok::reset();
    tok::set_cmp_panic(None);
    match js(&case["scenario"]) {
        "iter" => {
            let (c, r) = (ju(&case["shape"][0]), ju(&case["shape"][1]));
            let mut t = tok_array(c, r);
            match js(&case["cap"]) {
                "exact" => t.shrink_to_fit(),
                _ => t.reserve(16),
            }
            let have = ju(&case["have"]);
            let it = EvilIter {
                items: (0..have).map(|k| Tok::new(9000 + k as u32)).collect(),
                reported: ju(&case["rep"]),
                panic_at: case["panic_at"].as_u64().map(|x| x as usize),
                calls: 0,
                drop_panics: case["drop_panics"].as_bool().unwrap_or(false),
            };
            let index = ju(&case["index"]);
            let op = js(&case["op"]);
            let _ = catch(|| match op {
                "insert_row" => t.insert_row(index, it),
                "insert_col" => t.insert_col(index, it),
                "push_row" => t.push_row(it),
                "push_col" => t.push_col(it),
                _ => panic!("unknown op {}", op),
            });
            post_check(op, t, true)
        }
        "clone" => {
            let t = Target::from_json(&case["target"]);
            let op = js(&case["op"]);
            let k = ju(&case["k"]);
            let (w, h) = t.dims();
            let mut p = tok_parent(&t);
            match op {
                "fill" => {
                    let v = Tok::new(555);
                    tok::set_clone_panic(Some(k));
                    let _ = catch(|| with_mut_target!(&mut p, &t.wins, |x| x.fill(v)));
                }
                "clone_from_slice" => {
                    let src: Vec<Tok> = (0..w * h).map(|i| Tok::new(5000 + i as u32)).collect();
                    tok::set_clone_panic(Some(k));
                    let _ = catch(|| with_mut_target!(&mut p, &t.wins, |x| x.clone_from_slice(&src)));
                    tok::disarm();
                }
                "clone_from_toodee" => {
                    let src = tok_array(w, h);
                    tok::set_clone_panic(Some(k));
                    let _ = catch(|| with_mut_target!(&mut p, &t.wins, |x| x.clone_from_toodee(&src)));
                    tok::disarm();
                }
                "clone_from_strided" => {
                    let src = tok_array(w + 2, h + 1);
                    let v = if w == 0 { src.view((1, 1), (1, 1)) } else { src.view((1, 0), (1 + w, h)) };
                    tok::set_clone_panic(Some(k));
                    let _ = catch(|| with_mut_target!(&mut p, &t.wins, |x| x.clone_from_toodee(&v)));
                    tok::disarm();
                }
                "from_view" => {
                    tok::set_clone_panic(Some(k));
                    let made = catch(|| with_ref_target!(&p, &t.wins, |x| TooDee::from(x.view((0, 0), (w, h)))));
                    tok::disarm();
                    if let Ok(n) = made {
                        check_eq("From<view> dims", &(w, h), &(n.num_cols(), n.num_rows()))?;
                        post_check("From<view> result", n, true)?;
                    }
                }
                "from_view_mut" => {
                    tok::set_clone_panic(Some(k));
                    let made = catch(|| with_mut_target!(&mut p, &t.wins, |x| TooDee::from(x.view_mut((0, 0), (w, h)))));
                    tok::disarm();
                    if let Ok(n) = made {
                        check_eq("From<view_mut> dims", &(w, h), &(n.num_cols(), n.num_rows()))?;
                        post_check("From<view_mut> result", n, true)?;
                    }
                }
                "init" => {
                    let v = Tok::new(555);
                    tok::set_clone_panic(Some(k));
                    let made = catch(|| TooDee::init(w, h, v));
                    tok::disarm();
                    if let Ok(n) = made {
                        post_check("init result", n, true)?;
                    }
                }
                "clone_from_small" | "clone_from_big" => {
                    // destination with a different number of cells; Clone panics at the k-th element
                    let mut dst = if op == "clone_from_small" { tok_array(1, 1) } else { tok_array(w + 1, h + 2) };
                    tok::set_clone_panic(Some(k));
                    let _ = catch(|| dst.clone_from(&p));
                    tok::disarm();
                    post_check("clone_from destination", dst, true)?;
                }
                "clone" => {
                    tok::set_clone_panic(Some(k));
                    let made = catch(|| p.clone());
                    tok::disarm();
                    if let Ok(n) = made {
                        post_check("clone result", n, true)?;
                    }
                }
                _ => panic!("unknown op {}", op),
            }
            tok::disarm();
            check_eq("parent dims", &t.shape, &(p.num_cols(), p.num_rows()))?;
            post_check(op, p, true)
        }
        "default" => {
            let t = Target::from_json(&case["target"]);
            let k = ju(&case["k"]);
            tok::set_default_panic(Some(k));
            let made = catch(|| TooDee::<Tok>::new(t.shape.0, t.shape.1));
            tok::disarm();
            match made {
                Ok(n) => post_check("new", n, true),
                Err(()) => {
                    let dd = tok::double_drops();
                    if dd.is_empty() {
                        Ok(())
                    } else {
                        Err(Fail::new("new: drops", "no token dropped twice", format!("{:?}", dd)))
                    }
                }
            }
        }
        "drop" => {
            let (c, r) = (ju(&case["shape"][0]), ju(&case["shape"][1]));
            let op = js(&case["op"]);
            let k = ju(&case["k"]);
            let mut t = tok_array(c, r);
            if op == "clear" {
                tok::set_drop_panic(Some(k));
                let _ = catch(|| t.clear());
                tok::disarm();
                return post_check("clear", t, true);
            }
            let index = ju(&case["index"]);
            let (front, back) = (ju(&case["front"]), ju(&case["back"]));
            let _ = catch(|| {
                macro_rules! consume {
                    ($d:expr) => {{
                        let mut d = $d;
                        let mut taken = Vec::new();
                        for _ in 0..front {
                            taken.push(d.next());
                        }
                        for _ in 0..back {
                            taken.push(d.next_back());
                        }
                        tok::set_drop_panic(Some(k));
                        drop(d);
                        tok::disarm();
                        drop(taken);
                    }};
                }
                match op {
                    "remove_col" => consume!(t.remove_col(index)),
                    "pop_col" => consume!(t.pop_col().unwrap()),
                    "remove_row" => consume!(t.remove_row(index)),
                    "pop_row" => consume!(t.pop_row().unwrap()),
                    _ => panic!("unknown op {}", op),
                }
            });
            tok::disarm();
            post_check(op, t, true)
        }
        "zdrop" => {
            use crate::fam_insrem::{zst_array, zst_post_check, zst_reset, zst_set_drop_panic};
            let (c, r) = (ju(&case["shape"][0]), ju(&case["shape"][1]));
            let op = js(&case["op"]);
            let k = ju(&case["k"]);
            zst_reset();
            let mut t = zst_array(c, r);
            if op == "clear" {
                zst_set_drop_panic(Some(k));
                let _ = catch(|| t.clear());
                return zst_post_check("zero-sized cells: clear with a panicking destructor", t);
            }
            let index = ju(&case["index"]);
            let (front, back) = (ju(&case["front"]), ju(&case["back"]));
            let _ = catch(|| {
                macro_rules! consume {
                    ($d:expr) => {{
                        let mut d = $d;
                        let mut taken = Vec::new();
                        for _ in 0..front {
                            taken.push(d.next());
                        }
                        for _ in 0..back {
                            taken.push(d.next_back());
                        }
                        zst_set_drop_panic(Some(k));
                        drop(d);
                        zst_set_drop_panic(None);
                        drop(taken);
                    }};
                }
                match op {
                    "remove_col" => consume!(t.remove_col(index)),
                    "pop_col" => consume!(t.pop_col().unwrap()),
                    "remove_row" => consume!(t.remove_row(index)),
                    "pop_row" => consume!(t.pop_row().unwrap()),
                    _ => panic!("unknown op {}", op),
                }
            });
            zst_set_drop_panic(None);
            zst_post_check(&format!("zero-sized cells: {} whose drain is dropped with a panicking destructor", op), t)
        }
        "sort" => run_sort(case),
        s => panic!("unknown scenario {}", s),
    }
}
