//! Family `sort`: the 11 SortOps methods. Cells are key*KEY + unique id. [C16, C17, C04]
use crate::common::*;
use crate::fam_swapfill::Third;
use serde_json::{json, Value};
use toodee::{SortOps, TooDeeOps, TooDeeOpsMut};

const KEY: u32 = 10_000;

pub const METHODS: [&str; 11] = [
    "sort_row_ord",
    "sort_unstable_row_ord",
    "sort_by_row",
    "sort_unstable_by_row",
    "sort_by_row_key",
    "sort_unstable_by_row_key",
    "sort_col_ord",
    "sort_by_col",
    "sort_unstable_by_col",
    "sort_by_col_key",
    "sort_unstable_by_col_key",
];

pub fn is_row_method(m: &str) -> bool {
    m.contains("row")
}

fn is_stable(m: &str) -> bool {
    !m.contains("unstable")
}

fn is_ord(m: &str) -> bool {
    m.ends_with("_ord")
}

/// Applies a sort method with a key-only comparator / key function (or the natural order).
pub fn apply<X: TooDeeOpsMut<u32>>(x: &mut X, m: &str, i: usize) {
    let cmp = |a: &u32, b: &u32| (a / KEY).cmp(&(b / KEY));
    let key = |a: &u32| a / KEY;
    match m {
        "sort_row_ord" => x.sort_row_ord::<()>(i),
        "sort_unstable_row_ord" => x.sort_unstable_row_ord::<()>(i),
        "sort_by_row" => x.sort_by_row(i, cmp),
        "sort_unstable_by_row" => x.sort_unstable_by_row(i, cmp),
        "sort_by_row_key" => x.sort_by_row_key(i, key),
        "sort_unstable_by_row_key" => x.sort_unstable_by_row_key(i, key),
        "sort_col_ord" => x.sort_col_ord::<()>(i),
        "sort_by_col" => x.sort_by_col(i, cmp),
        "sort_unstable_by_col" => x.sort_unstable_by_col(i, cmp),
        "sort_by_col_key" => x.sort_by_col_key(i, key),
        "sort_unstable_by_col_key" => x.sort_unstable_by_col_key(i, key),
        _ => panic!("unknown sort method {}", m),
    }
}

fn key_lines(len: usize) -> Vec<Vec<usize>> {
    let mut out = Vec::new();
    let n = 3usize.pow(len as u32);
    for mut code in 0..n {
        let mut line = Vec::with_capacity(len);
        for _ in 0..len {
            line.push(code % 3);
            code /= 3;
        }
        out.push(line);
    }
    out
}

fn emit_target(f: &mut dyn FnMut(Value) -> bool, recv: &str, t: &Target, in_range: bool, out_of_range: bool) -> bool {
    let (w, h) = t.dims();
    let tj = t.to_json();
    for m in METHODS {
        let (line_len, n_lines) = if is_row_method(m) { (w, h) } else { (h, w) };
        if in_range {
            for i in 0..n_lines {
                for keys in key_lines(line_len) {
                    if !f(json!({"recv": recv, "method": m, "target": tj, "index": i, "keys": keys})) {
                        return false;
                    }
                }
            }
        }
        if out_of_range {
            let mut idx = vec![n_lines, n_lines + 1];
            idx.extend(huge());
            let keys: Vec<usize> = (0..line_len).map(|k| (2 * k + 1) % 3).collect();
            for i in idx {
                if !f(json!({"recv": recv, "method": m, "target": tj, "index": i, "keys": keys})) {
                    return false;
                }
            }
        }
    }
    true
}

pub fn cases(f: &mut dyn FnMut(Value) -> bool) {
    let owned: Vec<Target> = shapes(4).into_iter().map(Target::owned).collect();
    for t in &owned {
        if !emit_target(f, "direct", t, true, true) {
            return;
        }
    }
    // interior windows
    for h in 1..=4 {
        for w in 1..=4 {
            if !emit_target(f, "direct", &Target::win((6, 6), [1, 1, 1 + w, 1 + h]), true, true) {
                return;
            }
        }
    }
    // windows touching the edges
    for w in nonzero_windows(4, 4) {
        if !emit_target(f, "direct", &Target::win((4, 4), w), true, false) {
            return;
        }
    }
    for t in targets(0, 3, true, true) {
        if !emit_target(f, "direct", &t, false, true) {
            return;
        }
    }
    // third-party implementor (trait-default swap_rows etc.)
    for t in &owned {
        if !emit_target(f, "third", t, true, true) {
            return;
        }
    }
    // stability of the natural-order (Ord) variants is only observable with cells whose Ord looks at a
    // key and ignores a payload: 70 lines, 3 keys (std's unstable sort is an insertion sort up to 20)
    for seed in 0..6usize {
        for m in ["sort_row_ord", "sort_col_ord"] {
            for len in [8usize, 33, 70] {
                let keys: Vec<usize> = (0..len).map(|k| ((k * (seed + 2) * 5 + k / 4 + seed) % 3) as usize).collect();
                if !f(json!({"recv": "ordties", "method": m, "keys": keys})) {
                    return;
                }
            }
        }
    }
    // zero-sized element type: every variant must run (no arithmetic on element sizes) and keep the shape
    for m in METHODS {
        for (c, r) in [(3usize, 2usize), (1, 4), (4, 1)] {
            if !f(json!({"recv": "zst", "method": m, "shape": [c, r]})) {
                return;
            }
        }
    }
    // wide / tall arrays with many ties
    for seed in 0..8usize {
        for m in METHODS {
            let (shape, len) = if is_row_method(m) { ((40, 2), 40) } else { ((2, 40), 40) };
            let keys: Vec<usize> = (0..len).map(|k| ((k * (seed + 1) * 7 + k / 3 + seed) % 3) as usize).collect();
            for i in 0..2 {
                for t in [Target::owned(shape), Target::win((shape.0 + 2, shape.1 + 2), [1, 1, 1 + shape.0, 1 + shape.1])] {
                    if !f(json!({"recv": "direct", "method": m, "target": t.to_json(), "index": i, "keys": keys})) {
                        return;
                    }
                }
            }
        }
    }
}

/// Parent grid: cells key*KEY+id; the chosen line of the window carries `keys`.
pub fn build(t: &Target, row_method: bool, index: usize, keys: &[usize]) -> Grid {
    let (oc, or, w, h) = t.rect();
    let mut g = mk_grid(t.shape.0, t.shape.1);
    for r in 0..t.shape.1 {
        for c in 0..t.shape.0 {
            g[r][c] += (((c + 2 * r) % 3) as u32) * KEY;
        }
    }
    if row_method && index < h {
        for c in 0..w {
            let pos = &mut g[or + index][oc + c];
            *pos = *pos % KEY + keys[c] as u32 * KEY;
        }
    }
    if !row_method && index < w {
        for r in 0..h {
            let pos = &mut g[or + r][oc + index];
            *pos = *pos % KEY + keys[r] as u32 * KEY;
        }
    }
    g
}

fn transpose(g: &Grid) -> Grid {
    if g.is_empty() {
        return Vec::new();
    }
    (0..g[0].len()).map(|c| g.iter().map(|row| row[c]).collect()).collect()
}

/// cell whose natural order looks at `key` only
#[derive(Clone, Debug, PartialEq, Eq)]
struct KeyId {
    key: usize,
    id: usize,
}
impl PartialOrd for KeyId {
    fn partial_cmp(&self, o: &Self) -> Option<std::cmp::Ordering> {
        Some(self.cmp(o))
    }
}
impl Ord for KeyId {
    fn cmp(&self, o: &Self) -> std::cmp::Ordering {
        self.key.cmp(&o.key)
    }
}

fn run_ordties(m: &str, keys: &[usize]) -> Res {
    use toodee::TooDee;
    let n = keys.len();
    let row_m = is_row_method(m);
    // two lines: the key line (index 0) and a payload line carrying the ids
    let (c, r) = if row_m { (n, 2) } else { (2, n) };
    let mut cells = Vec::with_capacity(2 * n);
    for rr in 0..r {
        for cc in 0..c {
            let (line, pos) = if row_m { (rr, cc) } else { (cc, rr) };
            cells.push(KeyId { key: if line == 0 { keys[pos] } else { 9 }, id: line * 1000 + pos });
        }
    }
    let mut t = TooDee::from_vec(c, r, cells);
    let got = catch(|| if row_m { t.sort_row_ord::<()>(0) } else { t.sort_col_ord::<()>(0) });
    check_panic(m, false, got.is_err())?;
    let mut perm: Vec<usize> = (0..n).collect();
    perm.sort_by_key(|&k| keys[k]);
    for (pos, &src) in perm.iter().enumerate() {
        let (a, b) = if row_m { (t[(pos, 0)].clone(), t[(pos, 1)].clone()) } else { (t[(0, pos)].clone(), t[(1, pos)].clone()) };
        check_eq(&format!("{} (key-only Ord, {} lines): key line at {}", m, n, pos), &(keys[src], src), &(a.key, a.id))?;
        check_eq(&format!("{} (key-only Ord, {} lines): payload line at {}", m, n, pos), &(1000 + src), &b.id)?;
    }
    Ok(())
}

pub fn run(case: &Value) -> Res {
    let recv = js(&case["recv"]);
    let m = js(&case["method"]);
    if recv == "ordties" {
        return run_ordties(m, &jvec(&case["keys"]));
    }
    if recv == "zst" {
        use toodee::TooDee;
        let (c, r) = (ju(&case["shape"][0]), ju(&case["shape"][1]));
        let mut t: TooDee<()> = TooDee::new(c, r);
        let cmp = |_: &(), _: &()| std::cmp::Ordering::Equal;
        let key = |_: &()| 0u8;
        let got = catch(|| match m {
            "sort_row_ord" => t.sort_row_ord::<()>(0),
            "sort_unstable_row_ord" => t.sort_unstable_row_ord::<()>(0),
            "sort_by_row" => t.sort_by_row(0, cmp),
            "sort_unstable_by_row" => t.sort_unstable_by_row(0, cmp),
            "sort_by_row_key" => t.sort_by_row_key(0, key),
            "sort_unstable_by_row_key" => t.sort_unstable_by_row_key(0, key),
            "sort_col_ord" => t.sort_col_ord::<()>(0),
            "sort_by_col" => t.sort_by_col(0, cmp),
            "sort_unstable_by_col" => t.sort_unstable_by_col(0, cmp),
            "sort_by_col_key" => t.sort_by_col_key(0, key),
            "sort_unstable_by_col_key" => t.sort_unstable_by_col_key(0, key),
            _ => panic!("unknown sort method {}", m),
        });
        check_panic(&format!("{} on a {}x{} array of zero-sized cells", m, c, r), false, got.is_err())?;
        return check_eq("dims after sorting zero-sized cells", &(c, r), &(t.num_cols(), t.num_rows()));
    }
    let t = Target::from_json(&case["target"]);
    let index = ju(&case["index"]);
    let keys = jvec(&case["keys"]);
    let row_m = is_row_method(m);
    let model = build(&t, row_m, index, &keys);
    let rect = t.rect();
    let (_, _, w, h) = rect;
    let old = sub_grid(&model, rect);
    let n_lines = if row_m { h } else { w };
    let valid = index < n_lines;

    let mut p = to_toodee(&model);
    let got = match recv {
        "direct" => catch(|| with_mut_target!(&mut p, &t.wins, |x| apply(x, m, index))),
        "third" => catch(|| {
            with_mut_target!(&mut p, &t.wins, |x| {
                let mut th = Third(x);
                apply(&mut th, m, index)
            })
        }),
        _ => panic!("unknown receiver {}", recv),
    };
    check_panic(m, !valid, got.is_err())?;
    if !valid {
        return check_parent("whole parent after rejected sort", &p, &model);
    }
    // Work on "lines": for a row sort the permuted things are columns, for a column sort rows.
    // `lines_old[k]` is the k-th column (row sort) or row (column sort) of the window.
    let lines_old: Grid = if row_m { transpose(&old) } else { old.clone() };
    // sort keys of each line: the cell it has on the chosen line
    let sort_key = |line: &Vec<u32>| -> (u32, u32) {
        let v = line[index];
        if is_ord(m) {
            (v, 0)
        } else {
            (v / KEY, 0)
        }
    };
    // read back the window from the parent
    let (pc, pr) = (p.num_cols(), p.num_rows());
    let got_parent = match from_data(pc, pr, p.data()) {
        Some(g) if (pc, pr) == t.shape || (t.shape.0 == 0 || t.shape.1 == 0) => g,
        _ => return Err(Fail::new("parent shape", format!("{:?}", t.shape), format!("({},{}) len {}", pc, pr, p.data().len()))),
    };
    let new = sub_grid(&got_parent, rect);
    let lines_new: Grid = if row_m { transpose(&new) } else { new.clone() };
    if is_stable(m) || is_ord(m) {
        // fully determined result (ids are unique, so the natural order has no ties either)
        let mut perm: Vec<usize> = (0..lines_old.len()).collect();
        perm.sort_by_key(|&k| sort_key(&lines_old[k])); // std stable sort on the model
        let exp_lines: Grid = perm.iter().map(|&k| lines_old[k].clone()).collect();
        let exp_sub = if row_m { transpose(&exp_lines) } else { exp_lines };
        let mut exp_parent = model.clone();
        put_sub_grid(&mut exp_parent, rect, &exp_sub);
        check_parent(&format!("whole parent after {}", m), &p, &exp_parent)
    } else {
        // unstable: ordered + a permutation of intact lines + rest of the parent unchanged
        let ks: Vec<(u32, u32)> = lines_new.iter().map(sort_key).collect();
        if ks.windows(2).any(|p| p[0] > p[1]) {
            return Err(Fail::new(format!("{}: chosen line ordered", m), "non-decreasing keys", format!("{:?}", new)));
        }
        let mut a = lines_old.clone();
        let mut b = lines_new.clone();
        a.sort();
        b.sort();
        if a != b {
            return Err(Fail::new(
                format!("{}: every line intact and exactly once", m),
                format!("a permutation of the lines {:?}", lines_old),
                format!("{:?}", lines_new),
            ));
        }
        let mut exp_parent = model.clone();
        put_sub_grid(&mut exp_parent, rect, &new);
        check_parent(&format!("rest of parent after {}", m), &p, &exp_parent)
    }
}
