//! Bounded differential "search and replay" tool for the `toodee` crate.
//!
//! replay families
//! replay search <family> [--max-cases N]
//! replay run '<json>'
#![allow(clippy::all)]

#[macro_use]
mod common;
mod itermodel;
mod tok;
mod fam_ctor;
mod fam_access;
mod fam_views;
mod fam_iters;
mod fam_swapfill;
mod fam_copy;
mod fam_translate;
mod fam_sort;
mod fam_insrem;
mod fam_panicsafe;
mod fam_leak;
mod fam_serde;
mod fam_deser;

use common::{Fail, Res};
use serde_json::{json, Value};

/// Crash reporting: undefined behaviour in the crate may abort the process (e.g. the unsafe-precondition
/// checks of a debug build, a corrupted heap, a segfault). A signal handler then reports the case that was
/// running as the failing one.
mod crash {
    use serde_json::Value;
    use std::sync::atomic::{AtomicPtr, AtomicU8, Ordering};

    extern "C" {
        fn signal(signum: i32, handler: usize) -> usize;
        fn write(fd: i32, buf: *const u8, n: usize) -> isize;
        fn _exit(code: i32) -> !;
    }

    static CASE: AtomicPtr<Value> = AtomicPtr::new(std::ptr::null_mut());
    static FAMILY: AtomicPtr<String> = AtomicPtr::new(std::ptr::null_mut());
    /// 1 = search, 2 = run
    static MODE: AtomicU8 = AtomicU8::new(0);

    struct Buf {
        data: [u8; 16384],
        len: usize,
    }
    impl std::io::Write for Buf {
        fn write(&mut self, b: &[u8]) -> std::io::Result<usize> {
            let n = b.len().min(self.data.len() - self.len);
            self.data[self.len..self.len + n].copy_from_slice(&b[..n]);
            self.len += n;
            Ok(b.len())
        }
        fn flush(&mut self) -> std::io::Result<()> {
            Ok(())
        }
    }

    extern "C" fn on_signal(sig: i32) {
        use std::io::Write;
        let mut b = Buf { data: [0; 16384], len: 0 };
        let mode = MODE.load(Ordering::SeqCst);
        let _ = b.write_all(if mode == 2 { b"REPLAY-CONFIRMED " } else { b"FAIL " });
        let fam = FAMILY.load(Ordering::SeqCst);
        let case = CASE.load(Ordering::SeqCst);
        let _ = b.write_all(b"{\"family\":\"");
        if !fam.is_null() {
            let _ = b.write_all(unsafe { (*fam).as_bytes() });
        }
        let _ = b.write_all(b"\",\"case\":");
        if case.is_null() {
            let _ = b.write_all(b"null");
        } else {
            let _ = serde_json::to_writer(&mut b, unsafe { &*case });
        }
        let _ = b.write_all(b",\"variant\":\"crash\",\"expected\":\"no crash\",\"got\":\"process killed by signal ");
        let _ = write!(b, "{}", sig);
        let _ = b.write_all(b" (abort / memory fault inside the crate)\"}\n");
        unsafe {
            write(1, b.data.as_ptr(), b.len);
            _exit(1);
        }
    }

    pub fn install(family: &str, mode: u8) {
        FAMILY.store(Box::into_raw(Box::new(family.to_string())), Ordering::SeqCst);
        MODE.store(mode, Ordering::SeqCst);
        unsafe {
            for sig in [4, 6, 7, 8, 11] {
                signal(sig, on_signal as *const () as usize);
            }
        }
    }

    pub fn set_case(case: &Value) {
        CASE.store(case as *const Value as *mut Value, Ordering::SeqCst);
    }

    pub fn clear_case() {
        CASE.store(std::ptr::null_mut(), Ordering::SeqCst);
    }
}

pub struct Family {
    pub name: &'static str,
    /// Enumerates the cases in a fixed order; the callback returns `false` to stop.
    pub cases: fn(&mut dyn FnMut(Value) -> bool),
    /// Runs one case; `Err` describes the mismatch.
    pub run: fn(&Value) -> Res,
}

fn families() -> Vec<Family> {
    vec![
        Family { name: "ctor", cases: fam_ctor::cases, run: fam_ctor::run },
        Family { name: "access", cases: fam_access::cases, run: fam_access::run },
        Family { name: "views", cases: fam_views::cases, run: fam_views::run },
        Family { name: "rows", cases: fam_iters::rows_cases, run: fam_iters::run },
        Family { name: "cols", cases: fam_iters::cols_cases, run: fam_iters::run },
        Family { name: "cells", cases: fam_iters::cells_cases, run: fam_iters::run },
        Family { name: "swapfill", cases: fam_swapfill::cases, run: fam_swapfill::run },
        Family { name: "copy", cases: fam_copy::cases, run: fam_copy::run },
        Family { name: "translate", cases: fam_translate::cases, run: fam_translate::run },
        Family { name: "sort", cases: fam_sort::cases, run: fam_sort::run },
        Family { name: "insrem", cases: fam_insrem::cases, run: fam_insrem::run },
        Family { name: "panicsafe", cases: fam_panicsafe::cases, run: fam_panicsafe::run },
        Family { name: "leak", cases: fam_leak::cases, run: fam_leak::run },
        Family { name: "leak_drainrow", cases: fam_leak::cases_drainrow, run: fam_leak::run },
        Family { name: "serde", cases: fam_serde::cases, run: fam_serde::run },
        Family { name: "deser", cases: fam_deser::cases, run: fam_deser::run },
    ]
}

/// Runs a case, turning an escaping panic of the tool/crate into a failure as well.
fn run_guarded(f: &Family, case: &Value) -> Res {
    crash::set_case(case);
    let r = common::catch(|| (f.run)(case));
    crash::clear_case();
    match r {
        Ok(r) => r,
        Err(()) => Err(Fail::new("uncaught", "no panic escaping the case runner", "panic escaped the case runner")),
    }
}

fn report(family: &str, case: &Value, fail: &Fail) -> Value {
    json!({
        "family": family,
        "case": case,
        "variant": fail.variant,
        "expected": fail.expected,
        "got": fail.got,
    })
}

fn usage() -> ! {
    eprintln!("usage: replay families | replay search <family> [--max-cases N] | replay run '<json>'");
    std::process::exit(2);
}

fn main() {
    std::panic::set_hook(Box::new(|_| {}));
    let args: Vec<String> = std::env::args().skip(1).collect();
    if args.is_empty() {
        usage();
    }
    let fams = families();
    match args[0].as_str() {
        "families" => {
            for f in &fams {
                println!("{}", f.name);
            }
        }
        "search" => {
            if args.len() < 2 {
                usage();
            }
            let mut max_cases: u64 = 2_000_000;
            let mut i = 2;
            while i < args.len() {
                if args[i] == "--max-cases" && i + 1 < args.len() {
                    max_cases = args[i + 1].parse().unwrap_or_else(|_| usage());
                    i += 2;
                } else if let Some(v) = args[i].strip_prefix("--max-cases=") {
                    max_cases = v.parse().unwrap_or_else(|_| usage());
                    i += 1;
                } else {
                    usage();
                }
            }
            let fam = match fams.iter().find(|f| f.name == args[1]) {
                Some(f) => f,
                None => {
                    eprintln!("unknown family {}", args[1]);
                    std::process::exit(2);
                }
            };
            crash::install(fam.name, 1);
            let trace: Option<String> = std::env::var("REPLAY_TRACE").ok();
            let mut n: u64 = 0;
            let mut failed: Option<Value> = None;
            (fam.cases)(&mut |case: Value| {
                if n >= max_cases {
                    return false;
                }
                n += 1;
                if let Some(path) = &trace {
                    // written BEFORE the case runs: if the process hangs or dies, the file names the case
                    let _ = std::fs::write(path, serde_json::json!({"family": fam.name, "case": case}).to_string());
                }
                if let Err(fail) = run_guarded(fam, &case) {
                    failed = Some(report(fam.name, &case, &fail));
                    return false;
                }
                true
            });
            if let Some(j) = failed {
                println!("FAIL {}", j);
                std::process::exit(1);
            }
            println!("OK family={} cases={}", fam.name, n);
        }
        "run" => {
            if args.len() < 2 {
                usage();
            }
            let v: Value = match serde_json::from_str(&args[1]) {
                Ok(v) => v,
                Err(e) => {
                    eprintln!("bad json: {}", e);
                    std::process::exit(2);
                }
            };
            let name = v["family"].as_str().unwrap_or("");
            let fam = match fams.iter().find(|f| f.name == name) {
                Some(f) => f,
                None => {
                    eprintln!("unknown family {:?}", name);
                    std::process::exit(2);
                }
            };
            let case = &v["case"];
            crash::install(fam.name, 2);
            match run_guarded(fam, case) {
                Err(fail) => {
                    println!("REPLAY-CONFIRMED {}", report(fam.name, case, &fail));
                    std::process::exit(1);
                }
                Ok(()) => println!("REPLAY-NOT-REPRODUCED"),
            }
        }
        _ => usage(),
    }
}
