//! Family `swapfill`: swap, swap_rows, swap_cols, row_pair_mut, fill on owned arrays, mutable views and
//! a third-party implementor relying on the trait defaults. [C13, C04]
use crate::common::*;
use serde_json::{json, Value};
use std::ops::{Index, IndexMut};
use toodee::{Col, ColMut, Coordinate, Rows, RowsMut, TooDeeOps, TooDeeOpsMut, TooDeeView, TooDeeViewMut};

/// A minimal third-party implementor: only the required methods, everything else from the defaults.
pub struct Third<'a, X>(pub &'a mut X);

impl<'a, X: TooDeeOpsMut<u32>> Index<usize> for Third<'a, X> {
    type Output = [u32];
    fn index(&self, row: usize) -> &[u32] {
        &(*self.0)[row]
    }
}
impl<'a, X: TooDeeOpsMut<u32>> Index<Coordinate> for Third<'a, X> {
    type Output = u32;
    fn index(&self, c: Coordinate) -> &u32 {
        &(*self.0)[c]
    }
}
impl<'a, X: TooDeeOpsMut<u32>> IndexMut<usize> for Third<'a, X> {
    fn index_mut(&mut self, row: usize) -> &mut [u32] {
        &mut (*self.0)[row]
    }
}
impl<'a, X: TooDeeOpsMut<u32>> IndexMut<Coordinate> for Third<'a, X> {
    fn index_mut(&mut self, c: Coordinate) -> &mut u32 {
        &mut (*self.0)[c]
    }
}
impl<'a, X: TooDeeOpsMut<u32>> TooDeeOps<u32> for Third<'a, X> {
    fn num_cols(&self) -> usize {
        self.0.num_cols()
    }
    fn num_rows(&self) -> usize {
        self.0.num_rows()
    }
    fn view(&self, start: Coordinate, end: Coordinate) -> TooDeeView<'_, u32> {
        self.0.view(start, end)
    }
    fn rows(&self) -> Rows<'_, u32> {
        self.0.rows()
    }
    fn col(&self, col: usize) -> Col<'_, u32> {
        self.0.col(col)
    }
    unsafe fn get_unchecked_row(&self, row: usize) -> &[u32] {
        self.0.get_unchecked_row(row)
    }
    unsafe fn get_unchecked(&self, coord: Coordinate) -> &u32 {
        self.0.get_unchecked(coord)
    }
}
impl<'a, X: TooDeeOpsMut<u32>> TooDeeOpsMut<u32> for Third<'a, X> {
    fn view_mut(&mut self, start: Coordinate, end: Coordinate) -> TooDeeViewMut<'_, u32> {
        self.0.view_mut(start, end)
    }
    fn rows_mut(&mut self) -> RowsMut<'_, u32> {
        self.0.rows_mut()
    }
    fn col_mut(&mut self, col: usize) -> ColMut<'_, u32> {
        self.0.col_mut(col)
    }
    unsafe fn get_unchecked_row_mut(&mut self, row: usize) -> &mut [u32] {
        self.0.get_unchecked_row_mut(row)
    }
    unsafe fn get_unchecked_mut(&mut self, coord: Coordinate) -> &mut u32 {
        self.0.get_unchecked_mut(coord)
    }
}

const FILL: u32 = 424_242;
const M1: u32 = 1_000_000;
const M2: u32 = 2_000_000;

fn pair_args(dim: usize) -> Vec<(usize, usize)> {
    let mut v = Vec::new();
    for a in 0..=dim + 1 {
        for b in 0..=dim + 1 {
            v.push((a, b));
        }
    }
    for x in huge() {
        v.push((x, 0));
        v.push((0, x));
        v.push((x, x));
    }
    v
}

fn emit(f: &mut dyn FnMut(Value) -> bool, recv: &str, t: &Target, op: &str, args: &[usize]) -> bool {
    f(json!({"recv": recv, "target": t.to_json(), "op": op, "args": args}))
}

fn line_ops(f: &mut dyn FnMut(Value) -> bool, recv: &str, t: &Target) -> bool {
    let (w, h) = t.dims();
    for (a, b) in pair_args(h) {
        if !emit(f, recv, t, "swap_rows", &[a, b]) || !emit(f, recv, t, "row_pair_mut", &[a, b]) {
            return false;
        }
    }
    for (a, b) in pair_args(w) {
        if !emit(f, recv, t, "swap_cols", &[a, b]) {
            return false;
        }
    }
    emit(f, recv, t, "fill", &[])
}

fn swap_ops(f: &mut dyn FnMut(Value) -> bool, recv: &str, t: &Target) -> bool {
    let (w, h) = t.dims();
    for r1 in 0..=h + 1 {
        for c1 in 0..=w + 1 {
            for r2 in 0..=h + 1 {
                for c2 in 0..=w + 1 {
                    if !emit(f, recv, t, "swap", &[c1, r1, c2, r2]) {
                        return false;
                    }
                }
            }
        }
    }
    for x in huge() {
        for slot in 0..4 {
            let mut a = [0usize; 4];
            a[slot] = x;
            if !emit(f, recv, t, "swap", &a) {
                return false;
            }
        }
    }
    true
}

pub fn cases(f: &mut dyn FnMut(Value) -> bool) {
    // line operations + fill
    let mut ts = targets(4, 2, true, false);
    for r in 1..=4 {
        for c in 1..=4 {
            if r <= 2 && c <= 2 {
                continue;
            }
            for w in nonzero_windows(c, r) {
                ts.push(Target::win((c, r), w));
            }
        }
    }
    for w in nonzero_windows(5, 5) {
        ts.push(Target::win((5, 5), w));
    }
    ts.extend(nested_targets());
    for t in &ts {
        if !line_ops(f, "direct", t) {
            return;
        }
    }
    let third_ts = targets(4, 3, true, false);
    for t in &third_ts {
        if !line_ops(f, "third", t) {
            return;
        }
    }
    // swap of two cells
    let mut sw = targets(4, 3, true, false);
    for w in [[1, 1, 4, 4], [0, 0, 5, 5], [2, 0, 5, 2], [4, 4, 5, 5]] {
        sw.push(Target::win((5, 5), w));
    }
    sw.push(Target::nested((5, 5), [1, 1, 5, 5], [1, 1, 3, 3]));
    for t in &sw {
        if !swap_ops(f, "direct", t) {
            return;
        }
    }
    for t in targets(4, 2, true, false) {
        if !swap_ops(f, "third", &t) {
            return;
        }
    }
    for w in [[1, 1, 3, 3], [0, 1, 3, 2], [2, 0, 3, 3]] {
        if !swap_ops(f, "third", &Target::win((3, 3), w)) {
            return;
        }
    }
}

/// Applies the operation; returns an observation string (only row_pair_mut observes something).
fn apply<X: TooDeeOpsMut<u32>>(x: &mut X, op: &str, a: &[usize]) -> String {
    match op {
        "swap" => {
            x.swap((a[0], a[1]), (a[2], a[3]));
            String::new()
        }
        "swap_rows" => {
            x.swap_rows(a[0], a[1]);
            String::new()
        }
        "swap_cols" => {
            x.swap_cols(a[0], a[1]);
            String::new()
        }
        "row_pair_mut" => {
            let (r1, r2) = x.row_pair_mut(a[0], a[1]);
            let s = format!("{:?} {:?}", r1, r2);
            for v in r1.iter_mut() {
                *v += M1;
            }
            for v in r2.iter_mut() {
                *v += M2;
            }
            s
        }
        "fill" => {
            x.fill(FILL);
            String::new()
        }
        _ => panic!("unknown op {}", op),
    }
}

pub fn run(case: &Value) -> Res {
    let recv = js(&case["recv"]);
    let t = Target::from_json(&case["target"]);
    let op = js(&case["op"]);
    let a = jvec(&case["args"]);
    let model = mk_grid(t.shape.0, t.shape.1);
    let rect = t.rect();
    let (_, _, w, h) = rect;
    let mut sub = sub_grid(&model, rect);
    // ---- the model
    let expected: Option<String> = match op {
        "swap" => {
            if a[0] < w && a[1] < h && a[2] < w && a[3] < h {
                let tmp = sub[a[1]][a[0]];
                sub[a[1]][a[0]] = sub[a[3]][a[2]];
                sub[a[3]][a[2]] = tmp;
                Some(String::new())
            } else {
                None
            }
        }
        "swap_rows" => {
            if a[0] < h && a[1] < h {
                sub.swap(a[0], a[1]);
                Some(String::new())
            } else {
                None
            }
        }
        "swap_cols" => {
            if a[0] < w && a[1] < w {
                for row in sub.iter_mut() {
                    row.swap(a[0], a[1]);
                }
                Some(String::new())
            } else {
                None
            }
        }
        "row_pair_mut" => {
            if a[0] < h && a[1] < h && a[0] != a[1] {
                let s = format!("{:?} {:?}", sub[a[0]], sub[a[1]]);
                for v in sub[a[0]].iter_mut() {
                    *v += M1;
                }
                for v in sub[a[1]].iter_mut() {
                    *v += M2;
                }
                Some(s)
            } else {
                None
            }
        }
        "fill" => {
            for row in sub.iter_mut() {
                for v in row.iter_mut() {
                    *v = FILL;
                }
            }
            Some(String::new())
        }
        _ => panic!("unknown op {}", op),
    };
    let mut exp_parent = model.clone();
    if expected.is_some() {
        put_sub_grid(&mut exp_parent, rect, &sub);
    }
    // ---- the crate
    let mut p = to_toodee(&model);
    let got = match recv {
        "direct" => catch(|| with_mut_target!(&mut p, &t.wins, |x| apply(x, op, &a))),
        "third" => catch(|| {
            with_mut_target!(&mut p, &t.wins, |x| {
                let mut th = Third(x);
                apply(&mut th, op, &a)
            })
        }),
        _ => panic!("unknown receiver {}", recv),
    };
    let show = |o: &Option<String>| match o {
        Some(s) => format!("ok {}", s),
        None => "panic".to_string(),
    };
    check_str(op, &show(&expected), &show(&got.ok()))?;
    check_parent(&format!("whole parent after {}", op), &p, &exp_parent)
}
