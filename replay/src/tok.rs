//! Drop-counting tokens with a thread-local ledger, plus panic injection for Clone / Default / Drop.
use std::cell::RefCell;
use std::collections::BTreeMap;

#[derive(Default)]
pub struct Ledger {
    next_id: u32,
    /// id -> number of times Drop ran for it
    pub drops: BTreeMap<u32, u32>,
    /// panic on the k-th clone / default / drop from now (0 = the next one)
    pub clone_panic_at: Option<usize>,
    pub default_panic_at: Option<usize>,
    pub drop_panic_at: Option<usize>,
}

thread_local! {
    static LEDGER: RefCell<Ledger> = RefCell::new(Ledger::default());
}

pub fn reset() {
    LEDGER.with(|l| *l.borrow_mut() = Ledger::default());
}

pub fn set_clone_panic(k: Option<usize>) {
    LEDGER.with(|l| l.borrow_mut().clone_panic_at = k);
}
pub fn set_default_panic(k: Option<usize>) {
    LEDGER.with(|l| l.borrow_mut().default_panic_at = k);
}
pub fn set_drop_panic(k: Option<usize>) {
    LEDGER.with(|l| l.borrow_mut().drop_panic_at = k);
}
pub fn disarm() {
    set_clone_panic(None);
    set_default_panic(None);
    set_drop_panic(None);
}

/// Number of tokens created so far.
pub fn created() -> u32 {
    LEDGER.with(|l| l.borrow().next_id)
}

/// (id, drop count) for every token dropped more than once.
pub fn double_drops() -> Vec<(u32, u32)> {
    LEDGER.with(|l| l.borrow().drops.iter().filter(|(_, n)| **n > 1).map(|(i, n)| (*i, *n)).collect())
}

/// ids that were created but never dropped.
pub fn undropped() -> Vec<u32> {
    LEDGER.with(|l| {
        let l = l.borrow();
        (0..l.next_id).filter(|i| !l.drops.contains_key(i)).collect()
    })
}

pub fn drop_count(id: u32) -> u32 {
    LEDGER.with(|l| l.borrow().drops.get(&id).copied().unwrap_or(0))
}

fn countdown(slot: &mut Option<usize>) -> bool {
    match slot {
        Some(0) => {
            *slot = None;
            true
        }
        Some(k) => {
            *k -= 1;
            false
        }
        None => false,
    }
}

/// A token: `val` is its logical value (copied by Clone), `id` identifies the instance.
pub struct Tok {
    pub id: u32,
    pub val: u32,
}

impl Tok {
    pub fn new(val: u32) -> Tok {
        let id = LEDGER.with(|l| {
            let mut l = l.borrow_mut();
            let id = l.next_id;
            l.next_id += 1;
            id
        });
        Tok { id, val }
    }
}

impl std::fmt::Debug for Tok {
    fn fmt(&self, f: &mut std::fmt::Formatter<'_>) -> std::fmt::Result {
        write!(f, "{}", self.val)
    }
}

impl PartialEq for Tok {
    fn eq(&self, o: &Tok) -> bool {
        self.val == o.val
    }
}

impl Clone for Tok {
    fn clone(&self) -> Tok {
        let boom = LEDGER.with(|l| countdown(&mut l.borrow_mut().clone_panic_at));
        if boom {
            panic!("injected clone panic");
        }
        Tok::new(self.val)
    }
}

impl Default for Tok {
    fn default() -> Tok {
        let boom = LEDGER.with(|l| countdown(&mut l.borrow_mut().default_panic_at));
        if boom {
            panic!("injected default panic");
        }
        Tok::new(0)
    }
}

impl Drop for Tok {
    fn drop(&mut self) {
        let boom = LEDGER.with(|l| {
            let mut l = l.borrow_mut();
            *l.drops.entry(self.id).or_insert(0) += 1;
            if std::thread::panicking() {
                false
            } else {
                countdown(&mut l.drop_panic_at)
            }
        });
        if boom {
            panic!("injected drop panic");
        }
    }
}

/// Element abstraction so that histories run on both `u32` and `Tok`.
pub trait Cell: 'static {
    fn make(val: u32) -> Self;
    fn val(&self) -> u32;
    /// instance id (0 for plain values)
    fn ident(&self) -> u32;
}

impl Cell for u32 {
    fn make(val: u32) -> u32 {
        val
    }
    fn val(&self) -> u32 {
        *self
    }
    fn ident(&self) -> u32 {
        0
    }
}

impl Cell for Tok {
    fn make(val: u32) -> Tok {
        Tok::new(val)
    }
    fn val(&self) -> u32 {
        self.val
    }
    fn ident(&self) -> u32 {
        self.id
    }
}

// Ordering on tokens (by value), with an injectable panic on the k-th comparison.
thread_local! {
    static CMP_PANIC_AT: RefCell<Option<usize>> = RefCell::new(None);
}

pub fn set_cmp_panic(k: Option<usize>) {
    CMP_PANIC_AT.with(|c| *c.borrow_mut() = k);
}

impl Eq for Tok {}

impl PartialOrd for Tok {
    fn partial_cmp(&self, o: &Tok) -> Option<std::cmp::Ordering> {
        Some(self.cmp(o))
    }
}

impl Ord for Tok {
    fn cmp(&self, o: &Tok) -> std::cmp::Ordering {
        let boom = CMP_PANIC_AT.with(|c| countdown(&mut c.borrow_mut()));
        if boom {
            panic!("injected cmp panic");
        }
        self.val.cmp(&o.val)
    }
}
