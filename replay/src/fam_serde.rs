//! Family `serde`: serde_json round trips. [C18]
use crate::common::*;
use serde::de::DeserializeOwned;
use serde::Serialize;
use serde_json::{json, Value};
use std::fmt::Debug;
use toodee::{TooDee, TooDeeOps, TooDeeOpsMut as _};

const TRANSPORTS: [&str; 4] = ["str", "slice", "reader", "value"];

fn shapes_serde() -> Vec<(usize, usize)> {
    let mut v = shapes(4);
    v.extend([(1, 6), (6, 1), (5, 5)]);
    v
}

pub fn cases(f: &mut dyn FnMut(Value) -> bool) {
    for elem in ["u32", "i64", "string", "option_u8", "nested"] {
        for (c, r) in shapes_serde() {
            for tr in TRANSPORTS {
                if !f(json!({"elem": elem, "shape": [c, r], "transport": tr})) {
                    return;
                }
            }
        }
    }
    // large arrays and views (views are written dimensions first, owned arrays data first)
    for (c, r) in [(65usize, 64usize), (1, 4999), (300, 33)] {
        for kind in ["bigview", "bigview_mut", "big"] {
            for tr in TRANSPORTS {
                if !f(json!({"elem": kind, "shape": [c, r], "transport": tr})) {
                    return;
                }
            }
        }
    }
    for t in targets(4, 4, true, true) {
        for kind in ["view", "view_mut"] {
            for tr in TRANSPORTS {
                if !f(json!({"elem": kind, "target": t.to_json(), "transport": tr})) {
                    return;
                }
            }
        }
    }
}

/// Serialises `x` and deserialises a `TooDee<T>` through the given transport.
fn transport<S: Serialize, T: DeserializeOwned>(x: &S, tr: &str) -> Result<TooDee<T>, String> {
    let r = catch(|| -> Result<TooDee<T>, String> {
        match tr {
            "str" => {
                let s = serde_json::to_string(x).map_err(|e| format!("ser: {}", e))?;
                serde_json::from_str(&s).map_err(|e| format!("de: {} in {}", e, s))
            }
            "slice" => {
                let b = serde_json::to_vec(x).map_err(|e| format!("ser: {}", e))?;
                serde_json::from_slice(&b).map_err(|e| format!("de: {}", e))
            }
            "reader" => {
                let b = serde_json::to_vec(x).map_err(|e| format!("ser: {}", e))?;
                serde_json::from_reader(&b[..]).map_err(|e| format!("de: {}", e))
            }
            "value" => {
                let v = serde_json::to_value(x).map_err(|e| format!("ser: {}", e))?;
                serde_json::from_value(v).map_err(|e| format!("de: {}", e))
            }
            _ => panic!("unknown transport {}", tr),
        }
    });
    match r {
        Ok(x) => x,
        Err(()) => Err("panic".to_string()),
    }
}

fn round_trip<T: Serialize + DeserializeOwned + PartialEq + Debug + Clone>(c: usize, r: usize, cells: Vec<T>, tr: &str) -> Res {
    let orig = TooDee::from_vec(c, r, cells.clone());
    match transport::<_, T>(&orig, tr) {
        Err(e) => Err(Fail::new(format!("round trip via {}", tr), format!("Ok dims=({},{}) cells={:?}", c, r, cells), format!("Err({})", e))),
        Ok(back) => {
            check_eq("dims", &(c, r), &(back.num_cols(), back.num_rows()))?;
            check_eq("cells", &cells, &back.data().to_vec())?;
            check_eq("result == original", &true, &(back == orig))
        }
    }
}

fn strings() -> Vec<String> {
    vec![
        "plain", "a\"b", "back\\slash", "line\nfeed\ttab\r", "\u{0}nul", "\u{1f}ctl", "é", "😀", "", "</script>", "\u{2028}\u{2029}", "{\"num_cols\":1}", "\\u0041", "'", "\u{7f}",
    ]
    .into_iter()
    .map(String::from)
    .collect()
}

fn inner(i: usize) -> TooDee<u8> {
    let shapes = [(0usize, 0usize), (1, 1), (2, 1), (1, 2), (2, 2), (3, 1)];
    let (c, r) = shapes[i % shapes.len()];
    TooDee::from_vec(c, r, (0..c * r).map(|k| (k * 7 + i) as u8).collect())
}

pub fn run(case: &Value) -> Res {
    let tr = js(&case["transport"]);
    let elem = js(&case["elem"]);
    if elem == "view" || elem == "view_mut" {
        let t = Target::from_json(&case["target"]);
        let model = mk_grid(t.shape.0, t.shape.1);
        let sub = sub_grid(&model, t.rect());
        let (w, h) = t.dims();
        let mut p = to_toodee(&model);
        let got: Result<TooDee<u32>, String> = if elem == "view" {
            with_ref_target!(&p, &t.wins, |x| {
                let v = x.view((0, 0), (w, h));
                transport::<_, u32>(&v, tr)
            })
        } else {
            with_mut_target!(&mut p, &t.wins, |x| {
                let v = x.view_mut((0, 0), (w, h));
                transport::<_, u32>(&v, tr)
            })
        };
        return match got {
            Err(e) => Err(Fail::new(format!("{} via {}", elem, tr), format!("Ok dims=({},{}) cells={:?}", w, h, sub), format!("Err({})", e))),
            Ok(back) => {
                check_parent(&format!("owned copy of the {}", elem), &back, &sub)?;
                let copy = to_toodee(&sub);
                check_eq("result == owned copy", &true, &(back == copy))
            }
        };
    }
    let (c, r) = (ju(&case["shape"][0]), ju(&case["shape"][1]));
    let n = c * r;
    if elem == "big" || elem == "bigview" || elem == "bigview_mut" {
        // a window one cell smaller on each side of a (c+2) x (r+2) parent, or the owned array itself
        let cells: Vec<u32> = (0..(c + 2) * (r + 2)).map(|i| i as u32).collect();
        let mut p = TooDee::from_vec(c + 2, r + 2, cells);
        let exp: Vec<u32> = (0..r).flat_map(|rr| (0..c).map(move |cc| ((rr + 1) * (c + 2) + cc + 1) as u32)).collect();
        let got: Result<TooDee<u32>, String> = match elem {
            "bigview" => transport::<_, u32>(&p.view((1, 1), (c + 1, r + 1)), tr),
            "bigview_mut" => transport::<_, u32>(&p.view_mut((1, 1), (c + 1, r + 1)), tr),
            _ => transport::<_, u32>(&TooDee::from_vec(c, r, exp.clone()), tr),
        };
        return match got {
            Err(e) => Err(Fail::new(format!("{} {}x{} via {}", elem, c, r, tr), format!("Ok dims=({},{}), {} cells", c, r, n), format!("Err({})", &e[..e.len().min(200)]))),
            Ok(back) => {
                check_eq("dims", &(c, r), &(back.num_cols(), back.num_rows()))?;
                check_eq("cells equal", &true, &(back.data() == &exp[..]))
            }
        };
    }
    match elem {
        "u32" => {
            let mut cells = flat(&mk_grid(c, r));
            if n > 0 {
                cells[0] = u32::MAX;
                cells[n - 1] = 0;
            }
            round_trip(c, r, cells, tr)
        }
        "i64" => {
            let specials = [i64::MIN, -1, 0, 1, i64::MAX, -4294967296, 1 << 53];
            let cells: Vec<i64> = (0..n).map(|i| specials[i % specials.len()].wrapping_add((i / specials.len()) as i64)).collect();
            round_trip(c, r, cells, tr)
        }
        "string" => {
            let s = strings();
            let cells: Vec<String> = (0..n).map(|i| format!("{}{}", s[i % s.len()], if i >= s.len() { "x" } else { "" })).collect();
            round_trip(c, r, cells, tr)
        }
        "option_u8" => {
            let cells: Vec<Option<u8>> = (0..n).map(|i| if i % 3 == 1 { None } else { Some((i * 37 % 256) as u8) }).collect();
            round_trip(c, r, cells, tr)
        }
        "nested" => {
            let cells: Vec<TooDee<u8>> = (0..n).map(inner).collect();
            round_trip(c, r, cells, tr)
        }
        _ => panic!("unknown elem {}", elem),
    }
}
