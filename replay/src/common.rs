//! Shared helpers: failure type, panic catching, grids (the Vec<Vec<_>> model), windows, JSON access.
use serde_json::{json, Value};
use std::panic::{catch_unwind, AssertUnwindSafe};
use toodee::TooDee;

#[derive(Debug, Clone)]
pub struct Fail {
    pub variant: String,
    pub expected: String,
    pub got: String,
}

impl Fail {
    pub fn new(variant: impl Into<String>, expected: impl Into<String>, got: impl Into<String>) -> Fail {
        Fail { variant: variant.into(), expected: expected.into(), got: got.into() }
    }
}

pub type Res = Result<(), Fail>;

/// Runs `f`, returning `Err(())` if it panicked.
pub fn catch<R>(f: impl FnOnce() -> R) -> Result<R, ()> {
    catch_unwind(AssertUnwindSafe(f)).map_err(|_| ())
}

/// Compares two debug-formattable values.
pub fn check_eq<A: std::fmt::Debug + PartialEq>(variant: &str, expected: &A, got: &A) -> Res {
    if expected == got {
        Ok(())
    } else {
        Err(Fail::new(variant, format!("{:?}", expected), format!("{:?}", got)))
    }
}

pub fn check_str(variant: &str, expected: &str, got: &str) -> Res {
    if expected == got {
        Ok(())
    } else {
        Err(Fail::new(variant, expected, got))
    }
}

/// "panic" / "no panic" expectation helper.
pub fn check_panic(variant: &str, expect_panic: bool, panicked: bool) -> Res {
    if expect_panic == panicked {
        Ok(())
    } else {
        let s = |b: bool| if b { "panic" } else { "no panic" };
        Err(Fail::new(variant, s(expect_panic), s(panicked)))
    }
}

/// Values that provoke wrap-around in index arithmetic. The last two are the multiplicative
/// inverses of 3 and 5 modulo 2^64 (n * 3 == 1 and n * 5 == 1 when the product wraps).
pub fn huge() -> Vec<usize> {
    vec![
        1usize << 31,
        1usize << 32,
        1usize << 62,
        (1usize << 61) + 1,
        1usize << 63,
        (1usize << 63) + 1,
        usize::MAX / 2 + 1,
        usize::MAX - 1,
        usize::MAX,
        0xAAAA_AAAA_AAAA_AAAB,
        0xCCCC_CCCC_CCCC_CCCD,
    ]
}

/// A few huge values for positions where the full list would be too expensive.
pub fn huge_few() -> Vec<usize> {
    vec![1usize << 63, usize::MAX]
}

/// 0..=dim+1 plus the huge values.
#[allow(dead_code)]
pub fn idx_values(dim: usize) -> Vec<usize> {
    let mut v: Vec<usize> = (0..=dim + 1).collect();
    v.extend(huge());
    v
}

// ---------------------------------------------------------------------------------------------
// The model: rows of cells.

pub type Grid = Vec<Vec<u32>>;

pub fn cell_value(c: usize, r: usize) -> u32 {
    (100 * r + c + 1) as u32
}

/// A `rows` x `cols` grid with distinct values. `(0,0)` when either is zero.
pub fn mk_grid(cols: usize, rows: usize) -> Grid {
    if cols == 0 || rows == 0 {
        return Vec::new();
    }
    (0..rows).map(|r| (0..cols).map(|c| cell_value(c, r)).collect()).collect()
}

pub fn grid_dims<T>(g: &[Vec<T>]) -> (usize, usize) {
    if g.is_empty() || g[0].is_empty() {
        (0, 0)
    } else {
        (g[0].len(), g.len())
    }
}

pub fn flat<T: Clone>(g: &[Vec<T>]) -> Vec<T> {
    g.iter().flat_map(|r| r.iter().cloned()).collect()
}

pub fn to_toodee<T: Clone>(g: &[Vec<T>]) -> TooDee<T> {
    let (c, r) = grid_dims(g);
    TooDee::from_vec(c, r, flat(g))
}

/// Reads a TooDee back into a grid using only `data()` and the dimensions.
pub fn from_data<T: Clone>(cols: usize, rows: usize, data: &[T]) -> Option<Vec<Vec<T>>> {
    if cols.checked_mul(rows)? != data.len() {
        return None;
    }
    if cols == 0 {
        return Some(Vec::new());
    }
    Some(data.chunks(cols).map(|c| c.to_vec()).collect())
}

/// A window: [start_col, start_row, end_col, end_row].
pub type Win = [usize; 4];

/// Resolves a chain of (valid) windows to (col offset, row offset, cols, rows) in the parent.
pub fn resolve(wins: &[Win], shape: (usize, usize)) -> (usize, usize, usize, usize) {
    let (mut oc, mut or, mut w, mut h) = (0usize, 0usize, shape.0, shape.1);
    for win in wins {
        oc += win[0];
        or += win[1];
        w = win[2] - win[0];
        h = win[3] - win[1];
        if w == 0 || h == 0 {
            w = 0;
            h = 0;
        }
    }
    (oc, or, w, h)
}

pub fn sub_grid(g: &Grid, rect: (usize, usize, usize, usize)) -> Grid {
    let (oc, or, w, h) = rect;
    if w == 0 || h == 0 {
        return Vec::new();
    }
    (or..or + h).map(|r| g[r][oc..oc + w].to_vec()).collect()
}

pub fn put_sub_grid(g: &mut Grid, rect: (usize, usize, usize, usize), sub: &Grid) {
    let (oc, or, w, h) = rect;
    for r in 0..h {
        for c in 0..w {
            g[or + r][oc + c] = sub[r][c];
        }
    }
}

/// All (start<=end) windows inside a `cols` x `rows` parent, in a fixed order.
pub fn all_windows(cols: usize, rows: usize) -> Vec<Win> {
    let mut v = Vec::new();
    for sr in 0..=rows {
        for er in sr..=rows {
            for sc in 0..=cols {
                for ec in sc..=cols {
                    v.push([sc, sr, ec, er]);
                }
            }
        }
    }
    v
}

/// Only the windows with a non-zero extent in both directions.
pub fn nonzero_windows(cols: usize, rows: usize) -> Vec<Win> {
    all_windows(cols, rows).into_iter().filter(|w| w[2] > w[0] && w[3] > w[1]).collect()
}

/// Owned shapes obeying the zero rule: (0,0) and 1..=max x 1..=max.
pub fn shapes(max: usize) -> Vec<(usize, usize)> {
    let mut v = vec![(0, 0)];
    for r in 1..=max {
        for c in 1..=max {
            v.push((c, r));
        }
    }
    v
}

/// A "target": an owned array, or a (possibly nested) window of one.
#[derive(Debug, Clone)]
pub struct Target {
    pub shape: (usize, usize),
    pub wins: Vec<Win>,
}

impl Target {
    pub fn owned(shape: (usize, usize)) -> Target {
        Target { shape, wins: vec![] }
    }
    pub fn win(shape: (usize, usize), w: Win) -> Target {
        Target { shape, wins: vec![w] }
    }
    pub fn nested(shape: (usize, usize), w1: Win, w2: Win) -> Target {
        Target { shape, wins: vec![w1, w2] }
    }
    pub fn to_json(&self) -> Value {
        json!({"shape": [self.shape.0, self.shape.1], "wins": self.wins})
    }
    pub fn from_json(v: &Value) -> Target {
        let shape = (ju(&v["shape"][0]), ju(&v["shape"][1]));
        let wins = v["wins"]
            .as_array()
            .map(|a| a.iter().map(jwin).collect())
            .unwrap_or_default();
        Target { shape, wins }
    }
    pub fn rect(&self) -> (usize, usize, usize, usize) {
        resolve(&self.wins, self.shape)
    }
    pub fn dims(&self) -> (usize, usize) {
        let r = self.rect();
        (r.2, r.3)
    }
}

/// Standard target sets -------------------------------------------------------------------------

/// Owned shapes up to `max_owned`, all windows of all parents up to `max_parent`, and a fixed set of
/// nested windows.
pub fn targets(max_owned: usize, max_parent: usize, zero_extent: bool, nested: bool) -> Vec<Target> {
    let mut v: Vec<Target> = shapes(max_owned).into_iter().map(Target::owned).collect();
    for r in 1..=max_parent {
        for c in 1..=max_parent {
            let ws = if zero_extent { all_windows(c, r) } else { nonzero_windows(c, r) };
            for w in ws {
                v.push(Target::win((c, r), w));
            }
        }
    }
    if nested {
        v.extend(nested_targets());
    }
    v
}

/// A fixed set of nested windows (window of a window).
pub fn nested_targets() -> Vec<Target> {
    let mut v = Vec::new();
    for (shape, w1) in [((5, 5), [1, 1, 4, 4]), ((5, 4), [0, 1, 5, 4]), ((4, 5), [1, 0, 4, 5]), ((5, 5), [2, 2, 5, 5]), ((3, 3), [0, 0, 3, 3])] {
        let (cw, ch) = (w1[2] - w1[0], w1[3] - w1[1]);
        for w2 in nonzero_windows(cw, ch) {
            v.push(Target::nested(shape, w1, w2));
        }
    }
    v
}

// ---------------------------------------------------------------------------------------------
// JSON access helpers.

pub fn ju(v: &Value) -> usize {
    v.as_u64().unwrap_or_else(|| panic!("expected unsigned integer, got {}", v)) as usize
}

pub fn js(v: &Value) -> &str {
    v.as_str().unwrap_or_else(|| panic!("expected string, got {}", v))
}

#[allow(dead_code)]
pub fn jb(v: &Value) -> bool {
    v.as_bool().unwrap_or_else(|| panic!("expected bool, got {}", v))
}

pub fn jwin(v: &Value) -> Win {
    [ju(&v[0]), ju(&v[1]), ju(&v[2]), ju(&v[3])]
}

pub fn jvec(v: &Value) -> Vec<usize> {
    v.as_array().map(|a| a.iter().map(ju).collect()).unwrap_or_default()
}

// ---------------------------------------------------------------------------------------------
// Running code against a target.

/// Evaluates `$body` with `$x` bound to `&mut TooDee<u32>` (no windows) or `&mut TooDeeViewMut<u32>`
/// (one or two nested windows) of `$t`.
macro_rules! with_mut_target {
    ($t:expr, $wins:expr, |$x:ident| $body:expr) => {{
        use toodee::TooDeeOpsMut as _;
        let wins: &[$crate::common::Win] = $wins;
        match wins.len() {
            0 => {
                let $x = &mut *$t;
                $body
            }
            1 => {
                let w = wins[0];
                let mut v1 = $t.view_mut((w[0], w[1]), (w[2], w[3]));
                let $x = &mut v1;
                $body
            }
            2 => {
                let w = wins[0];
                let mut v1 = $t.view_mut((w[0], w[1]), (w[2], w[3]));
                let w = wins[1];
                let mut v2 = v1.view_mut((w[0], w[1]), (w[2], w[3]));
                let $x = &mut v2;
                $body
            }
            _ => panic!("too many nested windows"),
        }
    }};
}

/// Same with immutable views (`&TooDee<u32>` / `&TooDeeView<u32>`).
macro_rules! with_ref_target {
    ($t:expr, $wins:expr, |$x:ident| $body:expr) => {{
        use toodee::TooDeeOps as _;
        let wins: &[$crate::common::Win] = $wins;
        match wins.len() {
            0 => {
                let $x = &*$t;
                $body
            }
            1 => {
                let w = wins[0];
                let v1 = $t.view((w[0], w[1]), (w[2], w[3]));
                let $x = &v1;
                $body
            }
            2 => {
                let w = wins[0];
                let v1 = $t.view((w[0], w[1]), (w[2], w[3]));
                let w = wins[1];
                let v2 = v1.view((w[0], w[1]), (w[2], w[3]));
                let $x = &v2;
                $body
            }
            _ => panic!("too many nested windows"),
        }
    }};
}

/// Compares the whole parent array (dims and cells, via `data()`) with the model grid.
pub fn check_parent(variant: &str, t: &TooDee<u32>, model: &Grid) -> Res {
    use toodee::TooDeeOps;
    let (mc, mr) = grid_dims(model);
    let got_dims = (t.num_cols(), t.num_rows());
    let got = from_data(got_dims.0, got_dims.1, t.data());
    let ok = got_dims == (mc, mr) && got.as_ref() == Some(model);
    if ok {
        Ok(())
    } else {
        Err(Fail::new(
            variant,
            format!("dims={:?} cells={:?}", (mc, mr), model),
            format!("dims={:?} data={:?}", got_dims, t.data()),
        ))
    }
}
