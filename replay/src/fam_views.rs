//! Family `views`: view / view_mut on TooDee, TooDeeView, TooDeeViewMut receivers. [C03, C04]
use crate::common::*;
use serde_json::{json, Value};
use toodee::{TooDeeOps, TooDeeOpsMut, TooDeeView, TooDeeViewMut};

const MARK: u32 = 900_000;
const TAIL: [u32; 3] = [7777, 7778, 7779];

#[derive(Clone, Debug)]
struct Step {
    mutable: bool,
    start: (usize, usize),
    end: (usize, usize),
}

type Obs = (usize, usize, Vec<Vec<u32>>, Vec<Vec<u32>>);

fn observe<X: TooDeeOps<u32>>(x: &X) -> Obs {
    let (c, r) = (x.num_cols(), x.num_rows());
    let by_index: Vec<Vec<u32>> = (0..r).map(|rr| (0..c).map(|cc| x[(cc, rr)]).collect()).collect();
    let by_rows: Vec<Vec<u32>> = x.rows().map(|row| row.to_vec()).collect();
    (c, r, by_index, by_rows)
}

fn step_ro<X: TooDeeOps<u32>>(x: &X, chain: &[Step]) -> Result<Obs, ()> {
    let s = &chain[0];
    assert!(!s.mutable, "view_mut on a read-only receiver");
    if chain.len() == 1 {
        catch(|| observe(&x.view(s.start, s.end)))
    } else {
        let v = x.view(s.start, s.end);
        step_ro(&v, &chain[1..])
    }
}

fn step_mut<X: TooDeeOpsMut<u32>>(x: &mut X, chain: &[Step], write: Option<(usize, usize)>) -> Result<Obs, ()> {
    let s = &chain[0];
    if chain.len() == 1 {
        if s.mutable {
            catch(|| {
                let mut v = x.view_mut(s.start, s.end);
                let o = observe(&v);
                if let Some((c, r)) = write {
                    v[(c, r)] = MARK;
                }
                o
            })
        } else {
            catch(|| observe(&x.view(s.start, s.end)))
        }
    } else if s.mutable {
        let mut v = x.view_mut(s.start, s.end);
        step_mut(&mut v, &chain[1..], write)
    } else {
        let v = x.view(s.start, s.end);
        step_ro(&v, &chain[1..])
    }
}

fn step_json(s: &Step) -> Value {
    json!({"kind": if s.mutable { "view_mut" } else { "view" }, "start": [s.start.0, s.start.1], "end": [s.end.0, s.end.1]})
}

fn emit(f: &mut dyn FnMut(Value) -> bool, root: &str, shape: (usize, usize), chain: &[Step]) -> bool {
    let ch: Vec<Value> = chain.iter().map(step_json).collect();
    f(json!({"root": root, "shape": [shape.0, shape.1], "chain": ch}))
}

/// (root, kinds of the chain) combinations.
fn depth1_chains() -> Vec<(&'static str, bool)> {
    vec![("toodee", false), ("toodee", true), ("view_new", false), ("view_mut_new", false), ("view_mut_new", true)]
}

fn depth2_chains() -> Vec<(&'static str, bool, bool)> {
    vec![
        ("toodee", false, false),
        ("toodee", true, false),
        ("toodee", true, true),
        ("view_new", false, false),
        ("view_mut_new", true, true),
    ]
}

pub fn cases(f: &mut dyn FnMut(Value) -> bool) {
    // depth 1: every start/end over 0..=dim+1
    for shape in shapes(5) {
        let (c, r) = shape;
        for (root, m) in depth1_chains() {
            for sr in 0..=r + 1 {
                for er in 0..=r + 1 {
                    for sc in 0..=c + 1 {
                        for ec in 0..=c + 1 {
                            let st = Step { mutable: m, start: (sc, sr), end: (ec, er) };
                            if !emit(f, root, shape, &[st]) {
                                return;
                            }
                        }
                    }
                }
            }
            // huge values, one slot at a time
            for x in huge() {
                for slot in 0..4 {
                    let mut v = [0, 0, c, r];
                    v[slot] = x;
                    let st = Step { mutable: m, start: (v[0], v[1]), end: (v[2], v[3]) };
                    if !emit(f, root, shape, &[st]) {
                        return;
                    }
                }
                let st = Step { mutable: m, start: (x, x), end: (x, x) };
                if !emit(f, root, shape, &[st]) {
                    return;
                }
            }
        }
    }
    // depth 2
    let mut firsts: Vec<((usize, usize), Win)> = Vec::new();
    for shape in shapes(3) {
        let (c, r) = shape;
        for w in nonzero_windows(c, r) {
            firsts.push((shape, w));
        }
        firsts.push((shape, [0, 0, 0, 0]));
        firsts.push((shape, [c, r, c, r]));
        if c >= 1 {
            firsts.push((shape, [1, 0, 1, r]));
        }
    }
    for w in [[1, 1, 4, 4], [0, 0, 5, 5], [2, 0, 5, 3], [0, 2, 3, 5], [5, 5, 5, 5]] {
        firsts.push(((5, 5), w));
    }
    for w in [[1, 1, 3, 3], [0, 0, 4, 4], [1, 0, 4, 2]] {
        firsts.push(((4, 4), w));
    }
    for (shape, w1) in firsts {
        let (mut cw, mut ch) = (w1[2] - w1[0], w1[3] - w1[1]);
        if cw == 0 || ch == 0 {
            cw = 0;
            ch = 0;
        }
        for (root, m1, m2) in depth2_chains() {
            let first = Step { mutable: m1, start: (w1[0], w1[1]), end: (w1[2], w1[3]) };
            for sr in 0..=ch + 1 {
                for er in 0..=ch + 1 {
                    for sc in 0..=cw + 1 {
                        for ec in 0..=cw + 1 {
                            let st = Step { mutable: m2, start: (sc, sr), end: (ec, er) };
                            if !emit(f, root, shape, &[first.clone(), st]) {
                                return;
                            }
                        }
                    }
                }
            }
            for x in [1usize << 63, usize::MAX] {
                for slot in 0..4 {
                    let mut v = [0, 0, cw, ch];
                    v[slot] = x;
                    let st = Step { mutable: m2, start: (v[0], v[1]), end: (v[2], v[3]) };
                    if !emit(f, root, shape, &[first.clone(), st]) {
                        return;
                    }
                }
            }
        }
    }
}

fn execute(root: &str, model: &Grid, chain: &[Step], write: Option<(usize, usize)>) -> (Result<Obs, ()>, Vec<u32>) {
    let (c, r) = grid_dims(model);
    match root {
        "toodee" => {
            let mut t = to_toodee(model);
            let o = step_mut(&mut t, chain, write);
            let dims_ok = (t.num_cols(), t.num_rows()) == (c, r);
            let mut d = t.data().to_vec();
            if !dims_ok {
                d.push(u32::MAX); // make a dimension change visible
            }
            (o, d)
        }
        "view_new" => {
            let mut buf = flat(model);
            buf.extend(TAIL);
            let o = {
                let v = TooDeeView::new(c, r, &buf);
                step_ro(&v, chain)
            };
            (o, buf)
        }
        "view_mut_new" => {
            let mut buf = flat(model);
            buf.extend(TAIL);
            let o = {
                let mut v = TooDeeViewMut::new(c, r, &mut buf);
                step_mut(&mut v, chain, write)
            };
            (o, buf)
        }
        _ => panic!("unknown root {}", root),
    }
}

pub fn run(case: &Value) -> Res {
    let root = js(&case["root"]);
    let shape = (ju(&case["shape"][0]), ju(&case["shape"][1]));
    let chain: Vec<Step> = case["chain"]
        .as_array()
        .unwrap()
        .iter()
        .map(|s| Step {
            mutable: js(&s["kind"]) == "view_mut",
            start: (ju(&s["start"][0]), ju(&s["start"][1])),
            end: (ju(&s["end"][0]), ju(&s["end"][1])),
        })
        .collect();
    let model = mk_grid(shape.0, shape.1);
    // receiver of the last step
    let prefix: Vec<Win> = chain[..chain.len() - 1].iter().map(|s| [s.start.0, s.start.1, s.end.0, s.end.1]).collect();
    let (oc, or, w, h) = resolve(&prefix, shape);
    let last = chain.last().unwrap();
    let valid = last.start.0 <= last.end.0 && last.start.1 <= last.end.1 && last.end.0 <= w && last.end.1 <= h;
    let expected: Option<(usize, usize, Grid)> = if valid {
        let (mut vw, mut vh) = (last.end.0 - last.start.0, last.end.1 - last.start.1);
        if vw == 0 || vh == 0 {
            vw = 0;
            vh = 0;
        }
        let g = sub_grid(&model, (oc + last.start.0, or + last.start.1, vw, vh));
        Some((vw, vh, g))
    } else {
        None
    };
    let base_flat = {
        let mut v = flat(&model);
        if root != "toodee" {
            v.extend(TAIL);
        }
        v
    };

    let (obs, after) = execute(root, &model, &chain, None);
    match (&expected, &obs) {
        (None, Err(())) => {}
        (None, Ok(o)) => return Err(Fail::new("invalid start/end", "panic", format!("view of size ({},{}) cells {:?}", o.0, o.1, o.2))),
        (Some(e), Err(())) => return Err(Fail::new("valid start/end", format!("view of size ({},{}) cells {:?}", e.0, e.1, e.2), "panic")),
        (Some(e), Ok(o)) => {
            check_eq("view size", &(e.0, e.1), &(o.0, o.1))?;
            check_eq("view cells (indexing)", &e.2, &o.2)?;
            check_eq("view cells (rows())", &e.2, &o.3)?;
        }
    }
    check_eq("underlying data unchanged", &base_flat, &after)?;

    // write-through: every cell of a valid mutable window
    if let (Some(e), true) = (&expected, last.mutable) {
        for wr in 0..e.1 {
            for wc in 0..e.0 {
                let (obs, after) = execute(root, &model, &chain, Some((wc, wr)));
                if obs.is_err() {
                    return Err(Fail::new(format!("write ({},{}) through view_mut", wc, wr), "no panic", "panic"));
                }
                let mut exp = base_flat.clone();
                let pc = oc + last.start.0 + wc;
                let pr = or + last.start.1 + wr;
                exp[pr * shape.0 + pc] = MARK;
                check_eq(&format!("underlying data after writing ({},{}) through view_mut", wc, wr), &exp, &after)?;
            }
        }
    }
    Ok(())
}
