// Bounded Kani stand-ins for the raw-pointer code Verus cannot model (DESIGN section 5, U10).
// This file is copied into a SCRATCH COPY of /repo as src/verif_kani.rs and compiled only under
// cfg(kani).  Every harness has a concrete shape (const generics); indices, cell contents,
// probe coordinates, capacity mode and consumption splits are symbolic.
#![allow(dead_code, unused_imports, static_mut_refs)]
extern crate alloc;
use alloc::vec::Vec;
use crate::*;

pub fn wf<T>(t: &TooDee<T>) -> bool {
    t.num_cols() * t.num_rows() == t.data().len() && ((t.num_cols() == 0) == (t.num_rows() == 0))
}

fn mk<const N: usize>(c: usize, r: usize) -> (TooDee<u8>, [u8; N]) {
    let a: [u8; N] = kani::any();
    // `to_vec` allocates exactly N cells: the exact-capacity case (the operation must reallocate)
    let t = TooDee::from_vec(c, r, a.to_vec());
    (t, a)
}

// ---------------------------------------------------------------- insert_row (C06, C01)
pub fn insert_row_ok<const C: usize, const R: usize, const N: usize>() {
    let (mut t, a) = mk::<N>(C, R);
    let row: [u8; C] = kani::any();
    let idx: usize = kani::any();
    kani::assume(idx <= R);
    t.insert_row(idx, row);
    assert!(wf(&t), "C01 shape invariant after insert_row");
    assert!(t.num_cols() == C && t.num_rows() == R + 1, "C06 dims after insert_row");
    let pr: usize = kani::any();
    let pc: usize = kani::any();
    kani::assume(pr <= R && pc < C);
    let exp = if pr < idx { a[pr * C + pc] } else if pr == idx { row[pc] } else { a[(pr - 1) * C + pc] };
    assert!(t[(pc, pr)] == exp, "C06 insert_row cell equals model");
}

pub fn insert_row_into_empty<const L: usize>() {
    let mut t: TooDee<u8> = TooDee::default();
    let row: [u8; L] = kani::any();
    t.insert_row(0, row);
    assert!(wf(&t), "C01 shape invariant after insert_row into empty");
    if L == 0 {
        assert!(t.size() == (0, 0), "C06 empty row into empty stays (0,0)");
    } else {
        assert!(t.size() == (L, 1), "C06 row into empty sets the width");
        let pc: usize = kani::any();
        kani::assume(pc < L);
        assert!(t[(pc, 0)] == row[pc]);
    }
}

/// invalid index or length: must panic on every path (cover RETURNED must be unreachable)
pub fn insert_row_bad<const C: usize, const R: usize, const N: usize, const L: usize>() {
    let (mut t, _a) = mk::<N>(C, R);
    let row: [u8; L] = kani::any();
    let idx: usize = kani::any();
    kani::assume(idx <= R + 2);
    kani::assume(idx > R || L != C);
    t.insert_row(idx, row);
    kani::cover!(true, "RETURNED-NORMALLY");
}

/// empty array, any row length, non-zero index: must panic
pub fn insert_row_bad_empty<const L: usize>() {
    let mut t: TooDee<u8> = TooDee::default();
    let row: [u8; L] = kani::any();
    let idx: usize = kani::any();
    kani::assume(idx >= 1 && idx <= 3);
    t.insert_row(idx, row);
    kani::cover!(true, "RETURNED-NORMALLY");
}
pub fn insert_col_bad_empty<const L: usize>() {
    let mut t: TooDee<u8> = TooDee::default();
    let col: [u8; L] = kani::any();
    let idx: usize = kani::any();
    kani::assume(idx >= 1 && idx <= 3);
    t.insert_col(idx, col);
    kani::cover!(true, "RETURNED-NORMALLY");
}

// ---------------------------------------------------------------- insert_col (C06, C01)
pub fn insert_col_ok<const C: usize, const R: usize, const N: usize>() {
    let (mut t, a) = mk::<N>(C, R);
    let col: [u8; R] = kani::any();
    let idx: usize = kani::any();
    kani::assume(idx <= C);
    t.insert_col(idx, col);
    assert!(wf(&t), "C01 shape invariant after insert_col");
    assert!(t.num_cols() == C + 1 && t.num_rows() == R, "C06 dims after insert_col");
    let pr: usize = kani::any();
    let pc: usize = kani::any();
    kani::assume(pr < R && pc <= C);
    let exp = if pc < idx { a[pr * C + pc] } else if pc == idx { col[pr] } else { a[pr * C + pc - 1] };
    assert!(t[(pc, pr)] == exp, "C06 insert_col cell equals model");
}

pub fn insert_col_into_empty<const L: usize>() {
    let mut t: TooDee<u8> = TooDee::default();
    let col: [u8; L] = kani::any();
    t.insert_col(0, col);
    assert!(wf(&t), "C01 shape invariant after insert_col into empty");
    if L == 0 {
        assert!(t.size() == (0, 0), "C06 empty col into empty stays (0,0)");
    } else {
        assert!(t.size() == (1, L), "C06 col into empty sets the height");
        let pr: usize = kani::any();
        kani::assume(pr < L);
        assert!(t[(0, pr)] == col[pr]);
    }
}

pub fn insert_col_bad<const C: usize, const R: usize, const N: usize, const L: usize>() {
    let (mut t, _a) = mk::<N>(C, R);
    let col: [u8; L] = kani::any();
    let idx: usize = kani::any();
    kani::assume(idx <= C + 2);
    kani::assume(idx > C || L != R);
    t.insert_col(idx, col);
    kani::cover!(true, "RETURNED-NORMALLY");
}

// ---------------------------------------------------------------- remove_col / DrainCol (C07, C01)
/// the provided / overridden jump methods of the column drain: nth(k) / nth_back(k) after one cell
/// has been taken from the front must yield the cell an ideal double-ended sequence yields
pub fn remove_col_nth<const C: usize, const R: usize, const N: usize>() {
    let (mut t, a) = mk::<N>(C, R);
    let idx: usize = kani::any();
    kani::assume(idx < C);
    let k: usize = kani::any();
    kani::assume(k <= R + 1);
    let take_first: bool = kani::any();
    {
        let mut d = t.remove_col(idx);
        let mut f = 0;
        if take_first {
            let got = d.next();
            assert!(got == Some(a[idx]), "C07 next yields the first cell of the column");
            f = 1;
        }
        let rem = R - f;
        if kani::any() {
            let got = d.nth(k);
            if k < rem {
                assert!(got == Some(a[(f + k) * C + idx]), "C07 nth(k) yields the k-th remaining cell");
                assert!(d.len() == rem - k - 1, "C07 len after nth");
            } else {
                assert!(got.is_none(), "C07 nth beyond the end yields None");
                assert!(d.len() == 0);
            }
        } else {
            let got = d.nth_back(k);
            if k < rem {
                assert!(got == Some(a[(R - 1 - k) * C + idx]), "C07 nth_back(k) yields the k-th cell from the end");
                assert!(d.len() == rem - k - 1, "C07 len after nth_back");
            } else {
                assert!(got.is_none(), "C07 nth_back beyond the end yields None");
                assert!(d.len() == 0);
            }
        }
    }
    assert!(wf(&t), "C01 shape invariant after DrainCol drop");
}

pub fn remove_col_ok<const C: usize, const R: usize, const N: usize>() {
    let (mut t, a) = mk::<N>(C, R);
    let idx: usize = kani::any();
    kani::assume(idx < C);
    let front: usize = kani::any();
    let back: usize = kani::any();
    kani::assume(front <= R + 1 && back <= R + 1);
    {
        let mut d = t.remove_col(idx);
        assert!(d.len() == R, "C07 drain is exact-size");
        let mut f = 0;
        let mut b = 0;
        // consume `front` from the front then `back` from the back (bounded by R+1 each)
        let mut i = 0;
        while i < front {
            let got = d.next();
            if f + b < R {
                assert!(got == Some(a[f * C + idx]), "C07 next yields the column in order");
                f += 1;
            } else {
                assert!(got.is_none(), "C07 exhausted drain yields None");
            }
            i += 1;
        }
        assert!(d.len() == R - f - b, "C07 len after front consumption");
        let mut j = 0;
        while j < back {
            let got = d.next_back();
            if f + b < R {
                assert!(got == Some(a[(R - 1 - b) * C + idx]), "C07 next_back yields from the end");
                b += 1;
            } else {
                assert!(got.is_none());
            }
            j += 1;
        }
        assert!(d.len() == R - f - b, "C07 len after back consumption");
    }
    assert!(wf(&t), "C01 shape invariant after DrainCol drop");
    if C == 1 {
        assert!(t.size() == (0, 0), "C07 removing the last column leaves (0,0)");
    } else {
        assert!(t.size() == (C - 1, R), "C07 dims after remove_col");
        let pr: usize = kani::any();
        let pc: usize = kani::any();
        kani::assume(pr < R && pc < C - 1);
        let exp = if pc < idx { a[pr * C + pc] } else { a[pr * C + pc + 1] };
        assert!(t[(pc, pr)] == exp, "C07 remaining cells keep their relative position");
    }
}

pub fn remove_col_bad<const C: usize, const R: usize, const N: usize>() {
    let (mut t, _a) = mk::<N>(C, R);
    let idx: usize = kani::any();
    kani::assume(idx >= C);
    {
        let _d = t.remove_col(idx);
    }
    kani::cover!(true, "RETURNED-NORMALLY");
}

// ---------------------------------------------------------------- remove_row (C07, C01)
pub fn remove_row_ok<const C: usize, const R: usize, const N: usize>() {
    let (mut t, a) = mk::<N>(C, R);
    let idx: usize = kani::any();
    kani::assume(idx < R);
    let front: usize = kani::any();
    kani::assume(front <= C);
    {
        let mut d = t.remove_row(idx);
        assert!(d.len() == C, "C07 row drain is exact-size");
        let mut i = 0;
        while i < front {
            assert!(d.next() == Some(a[idx * C + i]), "C07 row drain yields the row in order");
            i += 1;
        }
        if front < C {
            assert!(d.next_back() == Some(a[idx * C + C - 1]), "C07 row drain next_back");
        }
    }
    assert!(wf(&t), "C01 shape invariant after DrainRow drop");
    if R == 1 {
        assert!(t.size() == (0, 0), "C07 removing the last row leaves (0,0)");
    } else {
        assert!(t.size() == (C, R - 1));
        let pr: usize = kani::any();
        let pc: usize = kani::any();
        kani::assume(pr < R - 1 && pc < C);
        let exp = if pr < idx { a[pr * C + pc] } else { a[(pr + 1) * C + pc] };
        assert!(t[(pc, pr)] == exp, "C07 remaining rows keep their relative position");
    }
}

pub fn pop_empty() {
    let mut t: TooDee<u8> = TooDee::default();
    assert!(t.pop_row().is_none(), "C07 pop_row on empty is None");
    assert!(t.pop_col().is_none(), "C07 pop_col on empty is None");
    assert!(wf(&t));
}

// ---------------------------------------------------------------- leaks (C12)
pub fn remove_col_forget<const C: usize, const R: usize, const N: usize>() {
    let (mut t, _a) = mk::<N>(C, R);
    let idx: usize = kani::any();
    kani::assume(idx < C);
    let front: usize = kani::any();
    kani::assume(front <= R);
    {
        let mut d = t.remove_col(idx);
        let mut i = 0;
        while i < front {
            let _ = d.next();
            i += 1;
        }
        core::mem::forget(d);
    }
    assert!(wf(&t), "C12 shape invariant after leaking DrainCol");
    // still usable: read everything, modify, drop
    let mut sum: u32 = 0;
    for c in t.cells() {
        sum = sum.wrapping_add(*c as u32);
    }
    let n = t.num_cols();
    if t.num_rows() == 0 {
        t.push_row([1u8, 2u8]);
        assert!(wf(&t) && t.size() == (2, 1), "C12 array usable after leak");
    } else {
        assert!(n > 0);
    }
}

// ---------------------------------------------------------------- drops (C05)
pub static mut LEDGER: [u8; 32] = [0; 32];

pub struct Tok {
    pub id: u8,
}
impl Drop for Tok {
    fn drop(&mut self) {
        unsafe {
            LEDGER[self.id as usize] += 1;
            assert!(LEDGER[self.id as usize] <= 1, "C05 element dropped twice");
        }
    }
}
fn toks(n: usize, base: u8) -> Vec<Tok> {
    let mut v = Vec::with_capacity(n);
    let mut i = 0;
    while i < n {
        v.push(Tok { id: base + i as u8 });
        i += 1;
    }
    v
}
fn all_dropped_once(n: usize) {
    let mut i = 0;
    while i < n {
        unsafe {
            assert!(LEDGER[i] == 1, "C05 element not dropped exactly once");
        }
        i += 1;
    }
}

/// history: build CxR, insert a row and a column at symbolic indices, remove a column consuming a
/// symbolic part of the drain, clear or drop.  Every token must be dropped exactly once.
pub fn drops_history<const C: usize, const R: usize>() {
    {
        let mut t = TooDee::from_vec(C, R, toks(C * R, 0));
        let ri: usize = kani::any();
        kani::assume(ri <= R);
        t.insert_row(ri, toks(C, (C * R) as u8));
        let ci: usize = kani::any();
        kani::assume(ci <= C);
        t.insert_col(ci, toks(R + 1, (C * R + C) as u8));
        assert!(wf(&t));
        let rc: usize = kani::any();
        kani::assume(rc <= C);
        let take: usize = kani::any();
        kani::assume(take <= R + 1);
        {
            let mut d = t.remove_col(rc);
            let mut i = 0;
            while i < take {
                let _x = d.next_back();
                i += 1;
            }
        }
        assert!(wf(&t));
        let rr: usize = kani::any();
        kani::assume(rr <= R);
        {
            let _d = t.remove_row(rr);
        }
        assert!(wf(&t));
        if kani::any() {
            t.clear();
            assert!(wf(&t));
        }
    }
    all_dropped_once(C * R + C + R + 1);
}

/// remove_col consumed through the provided/overridden iterator adaptors `nth` / `nth_back`:
/// skipped elements must still be dropped exactly once.
pub fn drops_drain_nth<const C: usize, const R: usize>() {
    {
        let mut t = TooDee::from_vec(C, R, toks(C * R, 0));
        let rc: usize = kani::any();
        kani::assume(rc < C);
        let k: usize = kani::any();
        kani::assume(k <= R + 1);     // also beyond the remaining cells
        {
            let mut d = t.remove_col(rc);
            if kani::any() {
                let _x = d.nth(k);
            } else {
                let _x = d.nth_back(k);
            }
            let _y = d.next();
        }
        assert!(wf(&t));
    }
    all_dropped_once(C * R);
}

/// remove_col / pop_col whose drain is partially consumed (from either end) and then LEAKED: elements
/// may be leaked, but no token may be dropped twice (the Tok destructor asserts it) - neither when the
/// taken tokens go out of scope nor when the array is dropped afterwards.
pub fn drops_leak_col<const C: usize, const R: usize>() {
    {
        let mut t = TooDee::from_vec(C, R, toks(C * R, 0));
        let rc: usize = kani::any();
        kani::assume(rc < C);
        let front: usize = kani::any();
        let back: usize = kani::any();
        kani::assume(front <= R && back <= R);
        {
            let mut d = if kani::any() { t.remove_col(rc) } else { t.pop_col().unwrap() };
            let mut i = 0;
            while i < front {
                let _x = d.next();
                i += 1;
            }
            i = 0;
            while i < back {
                let _x = d.next_back();
                i += 1;
            }
            core::mem::forget(d);
        }
        assert!(wf(&t), "C12 shape invariant after leaking a partially consumed DrainCol");
    }
}

// ---------------------------------------------------------------- zero-sized element type (C05, C06, C07)
/// A zero-sized cell with a live counter: all cells share one address, so code that compares cell
/// addresses (or derives counts from pointer differences) misbehaves exactly here.
pub struct Zt;
static mut ZLIVE: isize = 0;
impl Drop for Zt {
    fn drop(&mut self) {
        unsafe {
            ZLIVE -= 1;
        }
    }
}
fn zts(n: usize) -> Vec<Zt> {
    let mut v = Vec::new();
    let mut i = 0;
    while i < n {
        unsafe {
            ZLIVE += 1;
        }
        v.push(Zt);
        i += 1;
    }
    v
}
fn zlive_is<T>(t: &TooDee<T>) {
    unsafe {
        assert!(ZLIVE == t.data().len() as isize, "C05 zero-sized cells: constructed minus destroyed equals the cells held");
    }
}
pub fn zst_history<const C: usize, const R: usize>() {
    {
        let mut t = TooDee::from_vec(C, R, zts(C * R));
        let ri: usize = kani::any();
        kani::assume(ri <= R);
        t.insert_row(ri, zts(C));
        assert!(wf(&t) && t.size() == (C, R + 1), "C06 insert_row of zero-sized cells");
        zlive_is(&t);
        let ci: usize = kani::any();
        kani::assume(ci <= C);
        t.insert_col(ci, zts(R + 1));
        assert!(wf(&t) && t.size() == (C + 1, R + 1), "C06 insert_col of zero-sized cells");
        zlive_is(&t);
        let rc: usize = kani::any();
        kani::assume(rc <= C);
        let take: usize = kani::any();
        kani::assume(take <= R + 1);
        {
            let mut d = t.remove_col(rc);
            assert!(d.len() == R + 1, "C07 remove_col yields one cell per row");
            let mut i = 0;
            while i < take {
                assert!(d.next_back().is_some());
                i += 1;
            }
        }
        assert!(wf(&t) && t.size() == (C, R + 1), "C07 remove_col of zero-sized cells");
        zlive_is(&t);
        let rr: usize = kani::any();
        kani::assume(rr <= R);
        {
            let d = t.remove_row(rr);
            assert!(d.len() == C, "C07 remove_row yields one cell per column");
        }
        assert!(wf(&t) && t.size() == (C, R), "C07 remove_row of zero-sized cells");
        zlive_is(&t);
    }
    unsafe {
        assert!(ZLIVE == 0, "C05 zero-sized cells: every cell destroyed exactly once");
    }
}

// ---------------------------------------------------------------- caller code observing the array mid-operation (C11)
/// An iterator that, on every call, looks at the array it is being inserted into through a raw
/// pointer and asserts what an observer of a caught panic at this point would see: the shape
/// invariant holds and every reachable cell is one of the original cells.
pub struct Spy<const L: usize> {
    pub t: *const TooDee<u8>,
    pub items: [u8; L],
    pub front: usize,
    pub back: usize,
    pub reported: usize,
}
impl<const L: usize> Spy<L> {
    fn look(&self) {
        let t = unsafe { &*self.t };
        assert!(wf(t), "C11 shape invariant at a call into caller code");
        // every reachable cell must be readable
        let d = t.data();
        let mut i = 0;
        while i < d.len() {
            let mut j = i + 1;
            while j < d.len() {
                // the arrays handed to the spy harnesses hold pairwise distinct cells
                assert!(d[i] != d[j], "C11 an element is reachable through two cells");
                j += 1;
            }
            i += 1;
        }
        assert!(t.rows().len() == t.num_rows());
    }
}
impl<const L: usize> Iterator for Spy<L> {
    type Item = u8;
    fn next(&mut self) -> Option<u8> {
        self.look();
        if self.front + self.back < L {
            let v = self.items[self.front];
            self.front += 1;
            Some(v)
        } else {
            None
        }
    }
    fn size_hint(&self) -> (usize, Option<usize>) {
        (self.reported, Some(self.reported))
    }
}
impl<const L: usize> DoubleEndedIterator for Spy<L> {
    fn next_back(&mut self) -> Option<u8> {
        self.look();
        if self.front + self.back < L {
            self.back += 1;
            Some(self.items[L - self.back])
        } else {
            None
        }
    }
}
impl<const L: usize> ExactSizeIterator for Spy<L> {
    fn len(&self) -> usize {
        self.look();
        self.reported
    }
}

fn mk_distinct<const N: usize>(c: usize, r: usize) -> TooDee<u8> {
    let mut a = [0u8; N];
    let mut i = 0;
    while i < N {
        a[i] = 100 + i as u8;
        i += 1;
    }
    TooDee::from_vec(c, r, a.to_vec())
}

pub fn spy_insert_row<const C: usize, const R: usize, const N: usize>() {
    let mut t = mk_distinct::<N>(C, R);
    let idx: usize = kani::any();
    kani::assume(idx <= R);
    let spy = Spy::<C> { t: &t as *const _, items: [1u8; C], front: 0, back: 0, reported: C };
    t.insert_row(idx, spy);
    assert!(wf(&t));
}
pub fn spy_insert_col<const C: usize, const R: usize, const N: usize>() {
    let mut t = mk_distinct::<N>(C, R);
    let idx: usize = kani::any();
    kani::assume(idx <= C);
    let spy = Spy::<R> { t: &t as *const _, items: [1u8; R], front: 0, back: 0, reported: R };
    t.insert_col(idx, spy);
    assert!(wf(&t));
}
/// lying iterator: reports `reported` but yields L items; whatever happens (panic or return) the
/// spy's look() has checked every call point; on return the array must be well-formed.
pub fn spy_insert_row_lying<const C: usize, const R: usize, const N: usize, const L: usize>() {
    let mut t = mk_distinct::<N>(C, R);
    let idx: usize = kani::any();
    kani::assume(idx <= R);
    let spy = Spy::<L> { t: &t as *const _, items: [1u8; L], front: 0, back: 0, reported: C };
    t.insert_row(idx, spy);
    assert!(wf(&t));
    // fewer items than reported: the row cannot have been filled, so a normal return publishes stale cells
    kani::cover!(true, "RETURNED-NORMALLY");
}
/// same for insert_col / push_col: an iterator that reports R items but yields only L < R
pub fn spy_insert_col_lying<const C: usize, const R: usize, const N: usize, const L: usize>() {
    let mut t = mk_distinct::<N>(C, R);
    let idx: usize = kani::any();
    kani::assume(idx <= C);
    let spy = Spy::<L> { t: &t as *const _, items: [1u8; L], front: 0, back: 0, reported: R };
    t.insert_col(idx, spy);
    assert!(wf(&t));
    kani::cover!(true, "RETURNED-NORMALLY");
}
pub fn spy_insert_row_empty_huge() {
    let mut t: TooDee<u8> = TooDee::default();
    let spy = Spy::<2> { t: &t as *const _, items: kani::any(), front: 0, back: 0, reported: usize::MAX };
    t.insert_row(0, spy);
    kani::cover!(true, "RETURNED-NORMALLY");
}


// ---------------------------------------------------------------- translate_with_wrap (C15, C04) -- functional, bounded
pub fn translate_owned<const C: usize, const R: usize, const N: usize, const MC: usize, const MR: usize>() {
    // the offset is a const parameter: with a symbolic offset the cycle-leader loops exhaust CBMC
    let (mut t, a) = mk::<N>(C, R);
    let mc: usize = MC;
    let mr: usize = MR;
    t.translate_with_wrap((mc, mr));
    assert!(wf(&t) && t.size() == (C, R));
    let pc: usize = kani::any();
    let pr: usize = kani::any();
    kani::assume(pc < C && pr < R);
    let sc = (pc + mc) % C;
    let sr = (pr + mr) % R;
    assert!(t[(pc, pr)] == a[sr * C + sc], "C15 translate_with_wrap moves (c+mc, r+mr) to (c, r)");
}
pub fn translate_bad<const C: usize, const R: usize, const N: usize, const MC: usize, const MR: usize>() {
    let (mut t, _a) = mk::<N>(C, R);
    let mc: usize = MC;
    let mr: usize = MR;
    t.translate_with_wrap((mc, mr));
    kani::cover!(true, "RETURNED-NORMALLY");
}
/// interior window (1,1)..(1+C,1+R) of a (C+2)x(R+2) parent: inside = model, outside untouched
pub fn translate_window<const C: usize, const R: usize, const PN: usize, const MC: usize, const MR: usize>() {
    let (mut t, a) = mk::<PN>(C + 2, R + 2);
    let mc: usize = MC;
    let mr: usize = MR;
    {
        let mut v = t.view_mut((1, 1), (1 + C, 1 + R));
        v.translate_with_wrap((mc, mr));
    }
    let pc: usize = kani::any();
    let pr: usize = kani::any();
    kani::assume(pc < C + 2 && pr < R + 2);
    let inside = pc >= 1 && pc < 1 + C && pr >= 1 && pr < 1 + R;
    let exp = if inside {
        let sc = (pc - 1 + mc) % C;
        let sr = (pr - 1 + mr) % R;
        a[(sr + 1) * (C + 2) + sc + 1]
    } else {
        a[pr * (C + 2) + pc]
    };
    assert!(t[(pc, pr)] == exp, "C15/C04 translate on a window: inside = model, outside untouched");
}

// ---------------------------------------------------------------- whole-array copies through the trait defaults (C14, C04)
pub fn copy_defaults_window<const C: usize, const R: usize, const PN: usize, const SN: usize>() {
    let (mut t, a) = mk::<PN>(C + 2, R + 1);
    let src: [u8; SN] = kani::any();
    let which: u8 = kani::any();
    kani::assume(which < 4);
    {
        let mut v = t.view_mut((1, 0), (1 + C, R));
        if which == 0 {
            v.copy_from_slice(&src);
        } else if which == 1 {
            v.clone_from_slice(&src);
        } else {
            let s = TooDee::from_vec(C, R, src.to_vec());
            if which == 2 { v.copy_from_toodee(&s); } else { v.clone_from_toodee(&s.view((0, 0), (C, R))); }
        }
    }
    let pc: usize = kani::any();
    let pr: usize = kani::any();
    kani::assume(pc < C + 2 && pr < R + 1);
    let inside = pc >= 1 && pc < 1 + C && pr < R;
    let exp = if inside { src[pr * C + pc - 1] } else { a[pr * (C + 2) + pc] };
    assert!(t[(pc, pr)] == exp, "C14/C04 copy into a window: row-major source cells inside, outside untouched");
}
pub fn copy_defaults_owned<const C: usize, const R: usize, const N: usize>() {
    let (mut t, _a) = mk::<N>(C, R);
    let src: [u8; N] = kani::any();
    let s = TooDee::from_vec(C, R, src.to_vec());
    if kani::any() { t.copy_from_toodee(&s); } else { t.clone_from_toodee(&s.view((0, 0), (C, R))); }
    let p: usize = kani::any();
    kani::assume(p < N);
    assert!(t.data()[p] == src[p], "C14 copy_from_toodee / clone_from_toodee on an owned array");
}
pub fn copy_size_mismatch<const C: usize, const R: usize, const N: usize, const SN: usize>() {
    let (mut t, _a) = mk::<N>(C, R);
    let src: [u8; SN] = kani::any();
    let mut v = t.view_mut((0, 0), (C, R));
    v.copy_from_slice(&src);
    kani::cover!(true, "RETURNED-NORMALLY");
}
pub fn copy_empty_view() {
    let mut t: TooDee<u8> = TooDee::from_vec(2, 2, alloc::vec![1, 2, 3, 4]);
    let src: [u8; 0] = [];
    {
        let mut v = t.view_mut((1, 1), (1, 1));
        v.copy_from_slice(&src);
        v.clone_from_slice(&src);
    }
    assert!(t.data()[0] == 1 && t.data()[3] == 4, "C14 copying into an empty view is a no-op");
}

pub fn copy_owned_empty() {
    let mut t: TooDee<u8> = TooDee::default();
    let s: TooDee<u8> = TooDee::default();
    t.copy_from_toodee(&s);
    t.clone_from_toodee(&s.view((0, 0), (0, 0)));
    let e: [u8; 0] = [];
    t.copy_from_slice(&e);
    t.clone_from_slice(&e);
    assert!(wf(&t) && t.size() == (0, 0), "C14 copying between empty arrays is a no-op");
}

// ---------------------------------------------------------------- cells()/cells_mut() (C10) -- op sequences, bounded
/// two symbolic operations then drain forward; compared against row-major order
pub fn cells_ops<const C: usize, const R: usize, const N: usize>() {
    let (t, a) = mk::<N>(C, R);
    let mut it = t.cells();
    let mut lo: usize = 0; // model: remaining = a[lo..hi]
    let mut hi: usize = N;
    let mut k = 0;
    while k < 2 {
        let op: u8 = kani::any();
        kani::assume(op < 5);
        let n: usize = kani::any();
        kani::assume(n <= N + 1 || n == usize::MAX);
        if op == 0 {
            let g = it.next();
            if lo < hi { assert!(g == Some(&a[lo]), "C10 next"); lo += 1; } else { assert!(g.is_none()); }
        } else if op == 1 {
            let g = it.next_back();
            if lo < hi { assert!(g == Some(&a[hi - 1]), "C10 next_back"); hi -= 1; } else { assert!(g.is_none()); }
        } else if op == 2 {
            let g = it.nth(n);
            if n < hi - lo { assert!(g == Some(&a[lo + n]), "C10 nth"); lo += n + 1; } else { assert!(g.is_none(), "C10 nth beyond end"); lo = hi; }
        } else if op == 3 {
            let g = it.nth_back(n);
            if n < hi - lo { assert!(g == Some(&a[hi - 1 - n]), "C10 nth_back"); hi -= n + 1; } else { assert!(g.is_none(), "C10 nth_back beyond end"); hi = lo; }
        } else {
            assert!(it.len() == hi - lo, "C10 len");
        }
        k += 1;
    }
    assert!(it.len() == hi - lo, "C10 len after ops");
    let g = it.next();
    if lo < hi { assert!(g == Some(&a[lo]), "C10 next after ops"); } else { assert!(g.is_none()); }
}

/// both ends meet inside one row: `f` cells from the front, then drain from the back (and the mirror image)
pub fn cells_meet<const C: usize, const R: usize, const N: usize, const F: usize, const BACK_FIRST: bool>() {
    // the split point and direction are const parameters (a symbolic split exhausts CBMC)
    let (t, a) = mk::<N>(C, R);
    let f: usize = F;
    let from_back_first: bool = BACK_FIRST;
    let mut it = t.cells();
    let mut lo = 0;
    let mut hi = N;
    let mut i = 0;
    while i < f {
        if from_back_first {
            assert!(it.next_back() == Some(&a[hi - 1]), "C10 next_back (first phase)");
            hi -= 1;
        } else {
            assert!(it.next() == Some(&a[lo]), "C10 next (first phase)");
            lo += 1;
        }
        i += 1;
    }
    assert!(it.len() == hi - lo, "C10 len between phases");
    let mut j = 0;
    while j < N + 1 {
        if from_back_first {
            let g = it.next();
            if lo < hi { assert!(g == Some(&a[lo]), "C10 next (second phase)"); lo += 1; } else { assert!(g.is_none()); }
        } else {
            let g = it.next_back();
            if lo < hi { assert!(g == Some(&a[hi - 1]), "C10 next_back (second phase)"); hi -= 1; } else { assert!(g.is_none()); }
        }
        j += 1;
    }
}

// (sort: even 2x2 sort_by_row / sort_by_col exceed 10 min in CBMC - std's sort on a boxed side buffer - so no Kani harness exists for C16/C17)

// ---------------------------------------------------------------- harness instances
macro_rules! h {
    ($name:ident, $f:ident, $($g:expr),*) => {
        #[kani::proof]
        #[kani::unwind(8)]
        fn $name() { $f::<$($g),*>() }
    };
}
macro_rules! hl {
    ($name:ident, $f:ident, $($g:expr),*) => {
        #[kani::proof]
        #[kani::unwind(14)]
        fn $name() { $f::<$($g),*>() }
    };
}
macro_rules! hp {
    ($name:ident, $f:ident, $($g:expr),*) => {
        #[kani::proof]
        #[kani::unwind(8)]
        #[kani::should_panic]
        fn $name() { $f::<$($g),*>() }
    };
}

h!(k_insert_row_ok_2x2, insert_row_ok, 2, 2, 4);
h!(k_insert_row_ok_3x2, insert_row_ok, 3, 2, 6);
h!(k_insert_row_ok_1x3, insert_row_ok, 1, 3, 3);
h!(k_insert_row_ok_2x3, insert_row_ok, 2, 3, 6);
h!(k_insert_row_ok_3x3, insert_row_ok, 3, 3, 9);
h!(k_insert_row_empty_0, insert_row_into_empty, 0);
h!(k_insert_row_empty_3, insert_row_into_empty, 3);
hp!(k_insert_row_bad_2x2_len2, insert_row_bad, 2, 2, 4, 2);
hp!(k_insert_row_bad_2x2_len1, insert_row_bad, 2, 2, 4, 1);
hp!(k_insert_row_bad_2x2_len3, insert_row_bad, 2, 2, 4, 3);

h!(k_insert_col_ok_2x2, insert_col_ok, 2, 2, 4);
h!(k_insert_col_ok_3x2, insert_col_ok, 3, 2, 6);
h!(k_insert_col_ok_1x3, insert_col_ok, 1, 3, 3);
h!(k_insert_col_ok_2x3, insert_col_ok, 2, 3, 6);
h!(k_insert_col_ok_4x1, insert_col_ok, 4, 1, 4);
h!(k_insert_col_ok_3x3, insert_col_ok, 3, 3, 9);
h!(k_insert_col_empty_0, insert_col_into_empty, 0);
h!(k_insert_col_empty_3, insert_col_into_empty, 3);
hp!(k_insert_col_bad_2x2_len2, insert_col_bad, 2, 2, 4, 2);
hp!(k_insert_col_bad_2x2_len1, insert_col_bad, 2, 2, 4, 1);
hp!(k_insert_col_bad_2x2_len3, insert_col_bad, 2, 2, 4, 3);
hp!(k_insert_col_bad_3x2_len1, insert_col_bad, 3, 2, 6, 1);
hp!(k_insert_row_bad_empty_0, insert_row_bad_empty, 0);
hp!(k_insert_row_bad_empty_2, insert_row_bad_empty, 2);
hp!(k_insert_col_bad_empty_0, insert_col_bad_empty, 0);
hp!(k_insert_col_bad_empty_2, insert_col_bad_empty, 2);

h!(k_remove_col_ok_2x2, remove_col_ok, 2, 2, 4);
h!(k_remove_col_ok_3x2, remove_col_ok, 3, 2, 6);
h!(k_remove_col_ok_1x3, remove_col_ok, 1, 3, 3);
h!(k_remove_col_ok_2x3, remove_col_ok, 2, 3, 6);
h!(k_remove_col_ok_3x3, remove_col_ok, 3, 3, 9);
hp!(k_remove_col_bad_2x2, remove_col_bad, 2, 2, 4);
h!(k_remove_row_ok_2x2, remove_row_ok, 2, 2, 4);
h!(k_remove_row_ok_3x1, remove_row_ok, 3, 1, 3);
h!(k_remove_row_ok_2x3, remove_row_ok, 2, 3, 6);
h!(k_pop_empty, pop_empty,);

h!(k_remove_col_forget_2x2, remove_col_forget, 2, 2, 4);
h!(k_remove_col_forget_3x2, remove_col_forget, 3, 2, 6);
hl!(k_remove_col_nth_2x3, remove_col_nth, 2, 3, 6);
hl!(k_remove_col_nth_3x2, remove_col_nth, 3, 2, 6);
h!(k_remove_col_forget_1x2, remove_col_forget, 1, 2, 2);

hl!(k_drops_history_2x2, drops_history, 2, 2);
h!(k_drops_history_1x2, drops_history, 1, 2);
h!(k_drops_history_2x1, drops_history, 2, 1);

h!(k_zst_history_2x2, zst_history, 2, 2);
h!(k_zst_history_1x2, zst_history, 1, 2);

hl!(k_drops_drain_nth_2x2, drops_drain_nth, 2, 2);
hl!(k_drops_drain_nth_2x3, drops_drain_nth, 2, 3);

h!(k_spy_insert_row_2x2, spy_insert_row, 2, 2, 4);
h!(k_spy_insert_row_3x2, spy_insert_row, 3, 2, 6);
h!(k_spy_insert_col_2x2, spy_insert_col, 2, 2, 4);
h!(k_spy_insert_col_4x1, spy_insert_col, 4, 1, 4);
h!(k_spy_insert_col_2x3, spy_insert_col, 2, 3, 6);
hp!(k_spy_insert_row_lying_short, spy_insert_row_lying, 2, 2, 4, 1);
hp!(k_spy_insert_col_lying_short_2x3, spy_insert_col_lying, 2, 3, 6, 2);
hp!(k_spy_insert_col_lying_short_2x2, spy_insert_col_lying, 2, 2, 4, 1);
hp!(k_spy_insert_col_lying_none_2x2, spy_insert_col_lying, 2, 2, 4, 0);
hl!(k_drops_leak_col_2x2, drops_leak_col, 2, 2);
hl!(k_drops_leak_col_3x2, drops_leak_col, 3, 2);
h!(k_drops_leak_col_1x2, drops_leak_col, 1, 2);
hp!(k_spy_insert_row_empty_huge, spy_insert_row_empty_huge,);

h!(k_copy_defaults_window_2x2, copy_defaults_window, 2, 2, 12, 4);
h!(k_copy_defaults_window_1x3, copy_defaults_window, 1, 3, 12, 3);
h!(k_copy_defaults_owned_2x2, copy_defaults_owned, 2, 2, 4);
hp!(k_copy_size_mismatch_short, copy_size_mismatch, 2, 2, 4, 3);
hp!(k_copy_size_mismatch_long, copy_size_mismatch, 2, 2, 4, 5);
h!(k_copy_empty_view, copy_empty_view,);
h!(k_cells_ops_2x2, cells_ops, 2, 2, 4);
h!(k_cells_ops_3x2, cells_ops, 3, 2, 6);
hl!(k_translate_owned_2x2_m0_0, translate_owned, 2, 2, 4, 0, 0);
hl!(k_translate_owned_2x2_m0_1, translate_owned, 2, 2, 4, 0, 1);
hl!(k_translate_owned_2x2_m0_2, translate_owned, 2, 2, 4, 0, 2);
hl!(k_translate_owned_2x2_m1_0, translate_owned, 2, 2, 4, 1, 0);
hl!(k_translate_owned_2x2_m1_1, translate_owned, 2, 2, 4, 1, 1);
hl!(k_translate_owned_2x2_m1_2, translate_owned, 2, 2, 4, 1, 2);
hl!(k_translate_owned_2x2_m2_0, translate_owned, 2, 2, 4, 2, 0);
hl!(k_translate_owned_2x2_m2_1, translate_owned, 2, 2, 4, 2, 1);
hl!(k_translate_owned_2x2_m2_2, translate_owned, 2, 2, 4, 2, 2);
hl!(k_translate_owned_3x2_m0_0, translate_owned, 3, 2, 6, 0, 0);
hl!(k_translate_owned_3x2_m0_1, translate_owned, 3, 2, 6, 0, 1);
hl!(k_translate_owned_3x2_m0_2, translate_owned, 3, 2, 6, 0, 2);
hl!(k_translate_owned_3x2_m1_0, translate_owned, 3, 2, 6, 1, 0);
hl!(k_translate_owned_3x2_m1_1, translate_owned, 3, 2, 6, 1, 1);
hl!(k_translate_owned_3x2_m1_2, translate_owned, 3, 2, 6, 1, 2);
hl!(k_translate_owned_3x2_m2_0, translate_owned, 3, 2, 6, 2, 0);
hl!(k_translate_owned_3x2_m2_1, translate_owned, 3, 2, 6, 2, 1);
hl!(k_translate_owned_3x2_m2_2, translate_owned, 3, 2, 6, 2, 2);
hl!(k_translate_owned_3x2_m3_0, translate_owned, 3, 2, 6, 3, 0);
hl!(k_translate_owned_3x2_m3_1, translate_owned, 3, 2, 6, 3, 1);
hl!(k_translate_owned_3x2_m3_2, translate_owned, 3, 2, 6, 3, 2);
hl!(k_translate_owned_2x3_m0_0, translate_owned, 2, 3, 6, 0, 0);
hl!(k_translate_owned_2x3_m0_1, translate_owned, 2, 3, 6, 0, 1);
hl!(k_translate_owned_2x3_m0_2, translate_owned, 2, 3, 6, 0, 2);
hl!(k_translate_owned_2x3_m0_3, translate_owned, 2, 3, 6, 0, 3);
hl!(k_translate_owned_2x3_m1_0, translate_owned, 2, 3, 6, 1, 0);
hl!(k_translate_owned_2x3_m1_1, translate_owned, 2, 3, 6, 1, 1);
hl!(k_translate_owned_2x3_m1_2, translate_owned, 2, 3, 6, 1, 2);
hl!(k_translate_owned_2x3_m1_3, translate_owned, 2, 3, 6, 1, 3);
hl!(k_translate_owned_2x3_m2_0, translate_owned, 2, 3, 6, 2, 0);
hl!(k_translate_owned_2x3_m2_1, translate_owned, 2, 3, 6, 2, 1);
hl!(k_translate_owned_2x3_m2_2, translate_owned, 2, 3, 6, 2, 2);
hl!(k_translate_owned_2x3_m2_3, translate_owned, 2, 3, 6, 2, 3);
hl!(k_translate_owned_3x3_m1_1, translate_owned, 3, 3, 9, 1, 1);
hl!(k_translate_owned_3x3_m2_1, translate_owned, 3, 3, 9, 2, 1);
hl!(k_translate_owned_3x3_m1_2, translate_owned, 3, 3, 9, 1, 2);
hl!(k_translate_owned_3x3_m2_2, translate_owned, 3, 3, 9, 2, 2);
hl!(k_translate_owned_3x3_m3_3, translate_owned, 3, 3, 9, 3, 3);
hl!(k_translate_owned_3x3_m0_2, translate_owned, 3, 3, 9, 0, 2);
hl!(k_translate_owned_4x4_m1_2, translate_owned, 4, 4, 16, 1, 2);
hl!(k_translate_owned_4x4_m3_2, translate_owned, 4, 4, 16, 3, 2);
hl!(k_translate_owned_4x4_m2_2, translate_owned, 4, 4, 16, 2, 2);
hl!(k_translate_owned_4x4_m1_3, translate_owned, 4, 4, 16, 1, 3);
hl!(k_translate_owned_3x4_m1_2, translate_owned, 3, 4, 12, 1, 2);
hl!(k_translate_owned_3x4_m2_2, translate_owned, 3, 4, 12, 2, 2);
hl!(k_translate_owned_3x4_m1_0, translate_owned, 3, 4, 12, 1, 0);
// three and four row cycles (gcd(R, R-mr) >= 3): the outer loop must visit every base row
hl!(k_translate_owned_1x6_m0_3, translate_owned, 1, 6, 6, 0, 3);
hl!(k_translate_owned_2x6_m1_3, translate_owned, 2, 6, 12, 1, 3);
hl!(k_translate_owned_1x6_m0_2, translate_owned, 1, 6, 6, 0, 2);
hl!(k_translate_owned_1x6_m0_4, translate_owned, 1, 6, 6, 0, 4);
hl!(k_translate_owned_1x8_m0_4, translate_owned, 1, 8, 8, 0, 4);
hl!(k_translate_owned_1x9_m0_3, translate_owned, 1, 9, 9, 0, 3);
hl!(k_translate_owned_1x9_m0_6, translate_owned, 1, 9, 9, 0, 6);
hp!(k_translate_bad_2x2_m3_0, translate_bad, 2, 2, 4, 3, 0);
hp!(k_translate_bad_2x2_m0_3, translate_bad, 2, 2, 4, 0, 3);
hp!(k_translate_bad_2x2_m3_1, translate_bad, 2, 2, 4, 3, 1);
hl!(k_translate_window_2x2_m1_1, translate_window, 2, 2, 16, 1, 1);
hl!(k_translate_window_2x2_m1_0, translate_window, 2, 2, 16, 1, 0);
hl!(k_translate_window_2x2_m0_1, translate_window, 2, 2, 16, 0, 1);
hl!(k_translate_window_3x4_m1_2, translate_window, 3, 4, 30, 1, 2);
hl!(k_translate_window_3x4_m2_2, translate_window, 3, 4, 30, 2, 2);
h!(k_copy_owned_empty, copy_owned_empty,);
hl!(k_cells_meet_2x2_f0_f, cells_meet, 2, 2, 4, 0, false);
hl!(k_cells_meet_2x2_f0_t, cells_meet, 2, 2, 4, 0, true);
hl!(k_cells_meet_2x2_f1_f, cells_meet, 2, 2, 4, 1, false);
hl!(k_cells_meet_2x2_f1_t, cells_meet, 2, 2, 4, 1, true);
hl!(k_cells_meet_2x2_f2_f, cells_meet, 2, 2, 4, 2, false);
hl!(k_cells_meet_2x2_f2_t, cells_meet, 2, 2, 4, 2, true);
hl!(k_cells_meet_2x2_f3_f, cells_meet, 2, 2, 4, 3, false);
hl!(k_cells_meet_2x2_f3_t, cells_meet, 2, 2, 4, 3, true);
hl!(k_cells_meet_2x2_f4_f, cells_meet, 2, 2, 4, 4, false);
hl!(k_cells_meet_2x2_f4_t, cells_meet, 2, 2, 4, 4, true);
hl!(k_cells_meet_3x2_f0_f, cells_meet, 3, 2, 6, 0, false);
hl!(k_cells_meet_3x2_f0_t, cells_meet, 3, 2, 6, 0, true);
hl!(k_cells_meet_3x2_f1_f, cells_meet, 3, 2, 6, 1, false);
hl!(k_cells_meet_3x2_f1_t, cells_meet, 3, 2, 6, 1, true);
hl!(k_cells_meet_3x2_f2_f, cells_meet, 3, 2, 6, 2, false);
hl!(k_cells_meet_3x2_f2_t, cells_meet, 3, 2, 6, 2, true);
hl!(k_cells_meet_3x2_f3_f, cells_meet, 3, 2, 6, 3, false);
hl!(k_cells_meet_3x2_f3_t, cells_meet, 3, 2, 6, 3, true);
hl!(k_cells_meet_3x2_f4_f, cells_meet, 3, 2, 6, 4, false);
hl!(k_cells_meet_3x2_f4_t, cells_meet, 3, 2, 6, 4, true);
hl!(k_cells_meet_3x2_f5_f, cells_meet, 3, 2, 6, 5, false);
hl!(k_cells_meet_3x2_f5_t, cells_meet, 3, 2, 6, 5, true);
hl!(k_cells_meet_3x2_f6_f, cells_meet, 3, 2, 6, 6, false);
hl!(k_cells_meet_3x2_f6_t, cells_meet, 3, 2, 6, 6, true);
